#!/bin/bash
# offline set-up: icontract (+asttokens, six) into the git-ignored .deps
HERE="$(cd "$(dirname "${BASH_SOURCE[0]}")/.." && pwd)"
PY="${VERIF_PY:-/venv/bin/python}"
if [ ! -d "$HERE/.deps/icontract" ]; then
  "$PY" -m pip install --quiet --no-index --find-links /opt/veriftools/wheels \
      --target "$HERE/.deps" icontract 2>&1 | tail -3
fi
mkdir -p "$HERE/out/work" "$HERE/out/replay" "$HERE/evidence"
if [ -d "$HERE/.deps/icontract" ]; then echo "deps ok"; else echo "icontract not installed (contracts fall back to the built-in binder)"; fi
exit 0
