#!/venv/bin/python
"""Regenerates /verif/MANIFEST.json from the table below; a property is
claimed only when its check module exists."""
import json
import os

HERE = os.path.dirname(os.path.dirname(os.path.abspath(__file__)))

BASE = ("real /repo scripts run (fork + runpy) on tmpfs under an os.*/open "
        "interposition shim (event trace, virtual mount table, write fence, "
        "audit-hook cross-check per run, optional dropping of the capabilities "
        "that let root ignore mode bits; a sample of every run is replayed on "
        "real tmpfs mounts in a private mount namespace and in fresh "
        "interpreters, disagreement = inconclusive); runtime contracts "
        "(icontract) on the pure functions are bound in every run; ")

P = {
 'C01': ('exploration', 'snapshot-diff oracle over generated worlds, spellings and options',
         'Generated worlds x argument spellings x options; every argument must end TRASHED whole or UNTOUCHED and the rest of the sandbox unchanged (frame). Held on the executions observed, not proved.', '4/C01'),
 'C02': ('exploration', 'round-trip monitor: put, interleaved history, restore; signature equality',
         'put -> optional history -> restore from original dir / ancestors / path argument under every --sort; pre-put signature must reappear at the exact path and only that pair may leave the trash.', '4/C02'),
 'C03': ('exploration', 'runtime contracts on format/parse functions + raw-bytes grammar monitor on written .trashinfo files',
         'icontract-bound postconditions on the real format_trashinfo/parse functions driven with generated locations and dates, plus end-to-end byte-level grammar and round-trip checks through trash-list/restore/rm.', '4/C03'),
 'C04': ('exploration', 'controlled process scheduler over file-system operations (preemption-bounded exhaustive + random), free-running stress, trace-driven adaptive pre-states; multiset oracle',
         'Two/three real trash-put processes stepped operation by operation by a scheduler (all schedules up to a preemption bound, plus random ones), free-running parallel stress, and adaptive re-runs in which every name an earlier run touched without reserving it already belongs to an older entry; afterwards pairs must be distinct, complete and old entries intact.', '4/C04'),
 'C05': ('fault_enumeration', 'crash-point enumeration (_exit before, KeyboardInterrupt after every mutating fs operation) + SIGKILL sampling; on-disk state oracle',
         'For each scenario every position between two file-system operations is a crash point (exhaustive per scenario), once as an abrupt _exit and once as a handled SIGINT (KeyboardInterrupt when the call returns); the state afterwards must have each entry complete on one side and every payload accompanied by a parseable info.', '4/C05'),
 'C06': ('exploration', 'snapshot oracle over destination kinds x --overwrite',
         'Every kind of pre-existing destination x trashed kind x --overwrite on/off, single and multi-index replies; refusal must leave destination and pair intact.', '4/C06'),
 'C07': ('exploration', 'independent decision-table reference (spec) vs observed trash dir; trace monitor for same-volume rename and modes',
         'Configuration lattice sampled with pairwise coverage reporting; observed trash dir compared with an independent implementation of the spec decision table; created dirs 0700; delivering rename same-volume; no copy unless both fallback switches.', '4/C07'),
 'C08': ('exploration', 'canary snapshot monitor over .Trash states x five commands',
         'Populated $topdir/.Trash/$uid under every .Trash state; all five commands; insecure states must leave canaries untouched and unseen, the secure state must be used.', '4/C08'),
 'C09': ('exploration', 'history + executable bag model, online comparison after every step',
         'Random command histories; after each step trash-list output and the on-disk trash are compared with a bag model advanced by independent reference semantics.', '4/C09'),
 'C10': ('exploration', 'boundary-value generator + reference age rule; contract on older_than',
         'Crafted trash directories with dates around now-DAYS; removed set must equal the reference rule; kept entries byte-identical.', '4/C10'),
 'C11': ('exploration', 'containment monitor on the event trace + canary snapshots',
         'Trash contents full of outward symlinks; every mutating operation target must lie strictly inside files/ or info/ with no symlink traversed; canaries unchanged.', '4/C11'),
 'C12': ('exploration', 'independent glob matcher vs removed set; contract on Filter.matches',
         'Generated name sets x patterns; removed set must equal the reference matcher selection; others byte-identical.', '4/C12'),
 'C13': ('exploration', 'contracts on parse_indexes / scope test + end-to-end listing/index agreement',
         'Reply grammar and scope test against independent references over generated strings, and end-to-end: listed set, numbering, order, index-to-entry agreement, all-or-nothing.', '4/C13'),
 'C14': ('exploration', 'frame snapshots; dry-run vs real-run differential on identical worlds; reply generator',
         'dry-run leaves snapshot identical and prints exactly what the real run removes; negative replies change nothing (pipe and pty).', '4/C14'),
 'C15': ('fault_enumeration', 'crash-point and interrupt-point enumeration over restore/empty/rm + re-run to completion',
         'Every crash point of restore/empty/rm runs; no new orphan payload, restored entry complete on one side, re-run completes; a killed restore is also followed by trash-restore --overwrite and judged again (virtual device numbers per volume in the restore scenarios).', '4/C15'),
 'C16': ('exploration', 'per-argument differential (list vs alone) + exit/diagnostic oracle',
         'Argument lists mixing classes in all orders; exit status truthful, each failed argument named, outcome equals the outcome alone in an identical world.', '4/C16'),
 'C17': ('fault_enumeration', 'errno injection at every fallible operation (one-shot exhaustive per scenario, persistent, pairs); step-budget termination monitor',
         'For each scenario every fallible operation x representative errnos, persistent faults per candidate dir, and pairs; run must end within a step budget and satisfy the C01 oracle.', '4/C17'),
 'C18': ('exploration', 'symlink-target canary snapshots + lstat/readlink oracle',
         'Link kinds x spellings x volumes; target untouched, payload is the link itself, Path is that of the link, restore recreates it.', '4/C18'),
 'C19': ('exploration', 'differential: world with vs without malformed neighbours, restricted to well-formed entries',
         'Identical worlds with and without malformed neighbours, readdir order permuted; outputs/effects on the well-formed entries must be identical.', '4/C19'),
 'C20': ('exploration', 'four-way reader differential (list / restore / rm / empty) on generated .trashinfo texts',
         'Generated .trashinfo texts in each kind of trash dir; path and date as read by the four commands must agree with each other and the spec.', '4/C20'),
}

ENGINES = [
    ('E1 world builder', 'vf/world.py', 'sandbox trees from JSON descriptors (virtual mount table, env, trash-dir states, hostile names)'),
    ('E2 shim', 'vf/shim.py', 'os.*/open interposition: event trace (time-stamped on request), virtual volumes, fault/crash/interrupt/yield injection (also short sendfile counts, refused listings and chmods, a directory-swap adversary, equal inode numbers across volumes, read-only mount flag, real uid != effective uid), write proxy for file objects (one traced flush), write fence, audit-hook cross-check, capability drop (mode bits bite), fake account database, open-descriptor monitor at exit'),
    ('E3 runner', 'vf/run.py', 'fork+runpy execution of the real scripts (TZ, stream encodings, failing stderr writes - also a real pipe without reader -, stdin closed, prompt-synchronised replies per run); cold subprocess mode (also under a non-UTF-8 locale)'),
    ('E4 snapshotter', 'vf/snap.py', 'lstat/sha256 snapshots, signatures, diffs'),
    ('E5 reference semantics', 'vf/spec.py', 'independent spec implementation: percent coding, .trashinfo grammar, trash-dir decision table, glob, reply grammar, age rule'),
    ('E6 outcome analysis / model', 'vf/putcheck.py', 'TRASHED/UNTOUCHED/frame analysis; bag model'),
    ('E7 driver', 'check', 'sharded case execution, floors, three-valued verdicts, evidence, known-finding matching, replay, real-mount and fresh-interpreter cross-checks'),
    ('contracts', 'vf/contracts.py', 'icontract postconditions on format_trashinfo, OriginalLocation.for_file, parse_path, parse_deletion_date, parse_indexes, scope test, older_than, Filter.matches - bound at every reference, counted'),
    ('injection', 'vf/inject.py', 'crash-point / fault-plan scenarios, SIGKILL at random instants'),
    ('scheduler', 'vf/sched.py', 'process scheduler over visible file-system operations: preemption-bounded DFS, random, PCT'),
    ('self-validation', 'tools/mutation_audit', 'applies mutants/*.diff and seeded/*/patch.diff to scratch copies of /repo and records which check fires'),
]


def main():
    checks = []
    na = []
    for pid in sorted(P):
        level, tech, text, ref = P[pid]
        mod = os.path.join(HERE, 'vf', 'props', pid.lower() + '.py')
        if not os.path.exists(mod):
            na.append({'property_id': pid,
                       'reason': 'check not built yet in this round (runtime '
                                 'monitoring applies; see DESIGN.md section '
                                 + ref + ')'})
            continue
        checks.append({
            'property_id': pid,
            'quick_cmd': './check %s --tier quick' % pid,
            'thorough_cmd': './check %s --tier thorough' % pid,
            'evidence_file': 'evidence/%s.json' % pid,
            'replay_cmd_template': './check %s --replay {path}' % pid,
            'engine': 'E1-E7',
            'level_claimed': {'category': level, 'text': text,
                              'design_ref': 'DESIGN.md section ' + ref},
            'level_note': BASE + 'trusted: kernel/tmpfs, CPython, vf/snap.py, '
                          'vf/spec.py, completeness of the interposition '
                          '(cross-checked per run by the audit hook).',
            'technique': 'runtime monitoring: ' + tech,
        })
    m = {
        'version': 1,
        'setup_cmd': './tools/setup.sh',
        'hooks': {
            'guard': 'TRASHCLI_VERIF',
            'enable': 'no source hooks in /repo: the shim is installed from '
                      'the harness side inside the forked child (module-'
                      'attribute wrappers, sys.addaudithook); TRASHCLI_VERIF=1 '
                      'activates vf/boot/sitecustomize.py in cold mode',
            'baseline_off_cmd': 'cd /repo && /venv/bin/python -m pytest -ra -q '
                                '-p no:cacheprovider --timeout=900 '
                                '--continue-on-collection-errors',
            'source_commits': [],
            'add_only': True,
        },
        'engines': [{'name': n, 'path': p, 'serves_properties': sorted(P),
                     'kind_free_text': k} for n, p, k in ENGINES],
        'checks': checks,
        'notes': 'All checks: exit 0 held / exit 1 VIOLATION / exit 2 '
                 'INCONCLUSIVE. Known findings: known_findings.json.',
        'not_applicable': na,
    }
    with open(os.path.join(HERE, 'MANIFEST.json'), 'w') as f:
        json.dump(m, f, indent=1)
        f.write('\n')
    print('claimed', [c['property_id'] for c in checks])
    print('not claimed', [n['property_id'] for n in na])


if __name__ == '__main__':
    main()
