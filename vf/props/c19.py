"""C19 - a malformed trash entry never prevents the well-formed ones from
being handled: differential W_G (well-formed only) vs W_GM (plus malformed
neighbours), restricted to the well-formed entries."""
import copy
import os

from .. import gen, putcheck, run, snap, spec, trashgen, trashio, trashworld, world

ID = 'C19'

MKINDS = ['non-trashinfo-file', 'non-trashinfo-dir', 'empty', 'truncated',
          'binary', 'not-utf8', 'no-path', 'no-date', 'invalid-date',
          'info-without-payload', 'payload-without-info', 'dir-named-trashinfo',
          'only-header', 'nul-bytes', 'huge-line', 'path-empty',
          'dangling-link-info', 'link-to-dir-info', 'loop-link-info',
          'link-to-good-info', 'long-name-payload-without-info',
          'long-name-payload-without-info', 'payload-is-fifo',
          'unreadable-info', 'unremovable-payload', 'other-case-suffix',
          'other-case-suffix']
CMDS = ['list', 'restore-list', 'restore-each', 'rm', 'empty-days', 'empty']


def config(tier):
    return {
        'level': 'exploration',
        'cold_sample': 2 if tier == 'quick' else 15,
        'cases': 1600 if tier == 'quick' else 40000,
        'budget_s': 55 if tier == 'quick' else 560,
        'floors': {'cases': 150, 'differentials': 150, 'g_entries_compared': 400,
                   'malformed_neighbours': 300},
        'rule': 'case = set G (>= 2) of well-formed entries + set M (>= 1) of '
                'malformed neighbours (non-.trashinfo files/dirs in info/, '
                'empty/truncated/binary/non-UTF-8 .trashinfo, missing Path or '
                'DeletionDate, invalid date, info without payload, payload '
                'without info, directory named x.trashinfo) in the same trash '
                'dirs; readdir order permuted; one reading command run on the '
                'world with and without M; non-trivial = |G|>=2 and |M|>=1',
        'assumptions': ['listdir permutation by the shim models readdir order'],
    }


stem_of = {}


def malformed_nodes(rng, t, kind, j, index, same_as=None):
    base = t['rel']
    nm = 'm%d' % j + rng.choice(['', '', '', '{backup}', '{0}', '%s', ' %(x)s',
                                 '}{', '{', '$x'])
    ip = '%s/info/%s.trashinfo' % (base, nm)
    pp = '%s/files/%s' % (base, nm)
    pay = {'p': pp, 't': 'f', 'c': 'malformed-neighbour payload %d' % j}
    pathv = 'elsewhere/m%d' % j
    if same_as is not None:
        # the malformed neighbour claims the SAME original location as a
        # well-formed entry of this trash dir
        pathv = same_as
    good = '[Trash Info]\nPath=%s\nDeletionDate=2003-03-03T03:03:03\n' % pathv
    if same_as is not None and kind in ('no-date', 'invalid-date'):
        if kind == 'no-date':
            return [{'p': ip, 't': 'f', 'c': '[Trash Info]\nPath=%s\n' % pathv,
                     'sub': True}, pay]
        return [{'p': ip, 't': 'f', 'sub': True,
                 'c': '[Trash Info]\nPath=%s\nDeletionDate=%s\n' % (
                     pathv, rng.choice(['yesterday', '2003-13-03T03:03:03', '']))}, pay]
    if kind == 'non-trashinfo-file':
        return [{'p': base + '/info/README-%d.txt' % j, 't': 'f', 'c': 'hi'}]
    if kind == 'non-trashinfo-dir':
        return [{'p': base + '/info/subdir-%d' % j, 't': 'd'},
                {'p': base + '/info/subdir-%d/x.trashinfo' % j, 't': 'f', 'c': good}]
    if kind == 'empty':
        return [{'p': ip, 't': 'f', 'c': ''}, pay]
    if kind == 'truncated':
        cut = rng.randrange(0, len(good))
        return [{'p': ip, 't': 'f', 'c': good[:cut]}, pay]
    if kind == 'binary':
        data = bytes(rng.randrange(256) for _ in range(rng.randint(1, 200)))
        return [{'p': ip, 't': 'f', 'hex': data.hex()}, pay]
    if kind == 'not-utf8':
        data = b'[Trash Info]\nPath=elsewhere/caf\xe9-%d\nDeletionDate=2003-03-03T03:03:03\n' % j
        return [{'p': ip, 't': 'f', 'hex': data.hex()}, pay]
    if kind == 'no-path':
        return [{'p': ip, 't': 'f', 'c': '[Trash Info]\nDeletionDate=2003-03-03T03:03:03\n'}, pay]
    if kind == 'no-date':
        return [{'p': ip, 't': 'f', 'c': '[Trash Info]\nPath=elsewhere/m%d\n' % j}, pay]
    if kind == 'invalid-date':
        return [{'p': ip, 't': 'f', 'c': '[Trash Info]\nPath=elsewhere/m%d\nDeletionDate=%s\n' % (
            j, rng.choice(['yesterday', '2003-13-03T03:03:03', '', '2003-03-03',
                           # right punctuation, numbers no date field can hold
                           '20010203040506-01-01T00:00:00', '2001-01-01T00:00:99999999999',
                           '2147483648-01-01T00:00:00', '2001-4294967296-01T00:00:00',
                           '0000-00-00T00:00:00', '2001-01-01T24:60:60',
                           '9' * 5000 + '-01-01T00:00:00', '-001-01-01T00:00:00',
                           '2001-01-01T00:00:00.5', '２００１-01-01T00:00:00',
                           # a zone suffix (other implementations): not the
                           # spec's format, an undated entry
                           '2001-01-01T00:00:00Z', '2001-01-01T00:00:00+0200',
                           '2001-01-01T00:00:00+02:00', '2001-01-01T00:00:00-0000']))}, pay]
    if kind == 'info-without-payload':
        return [{'p': ip, 't': 'f', 'c': good}]
    if kind == 'payload-without-info':
        return [pay]
    if kind == 'dir-named-trashinfo':
        return [{'p': ip, 't': 'd'}, pay]
    if kind == 'only-header':
        return [{'p': ip, 't': 'f', 'c': '[Trash Info]\n'}, pay]
    if kind == 'nul-bytes':
        return [{'p': ip, 't': 'f', 'hex': (b'[Trash Info]\nPath=a\x00b\nDeletionDate=2003-03-03T03:03:03\n').hex()}, pay]
    if kind == 'huge-line':
        return [{'p': ip, 't': 'f', 'c': '[Trash Info]\nPath=' + 'x' * 70000 + '\nDeletionDate=2003-03-03T03:03:03\n'}, pay]
    if kind == 'dangling-link-info':
        return [{'p': ip, 't': 'l', 'to': 'no-such-target-%d' % j}, pay]
    if kind == 'link-to-dir-info':
        return [{'p': ip, 't': 'l', 'to': '.'}, pay]
    if kind == 'loop-link-info':
        return [{'p': ip, 't': 'l', 'to': nm + '.trashinfo'}, pay]
    if kind == 'link-to-good-info':
        return [{'p': base + '/info/target-of-link-%d.txt' % j, 't': 'f', 'c': good},
                {'p': ip, 't': 'l', 'to': 'target-of-link-%d.txt' % j}, pay]
    if kind == 'long-name-payload-without-info':
        # no .trashinfo can exist for it: name + '.trashinfo' exceeds NAME_MAX
        ln = rng.choice([246, 250, 255, 245, 247])
        unit = rng.choice(['o', 'é', 'long-'])
        n2 = 'm%d-' % j + unit * 300
        while len(n2.encode('utf-8')) > ln:
            n2 = n2[:-1]
        return [{'p': '%s/files/%s' % (base, n2), 't': rng.choice(['f', 'd']),
                 **({'c': 'long orphan'} if False else {})}]
    if kind == 'unreadable-info':
        # mode 000: bites because the case runs without CAP_DAC_OVERRIDE
        return [{'p': ip, 't': 'f', 'c': good, 'm': 0o000}, pay]
    if kind == 'unremovable-payload':
        return [{'p': ip, 't': 'f', 'c': good},
                {'p': pp, 't': 'd', 'm': 0o755},
                {'p': pp + '/locked', 't': 'd', 'm': 0o000},
                {'p': pp + '/locked/inside', 't': 'f', 'c': 'x'}]
    if kind == 'other-case-suffix':
        # NOT a .trashinfo (the suffix is case-sensitive): a file in info/
        # whose stem is that of a well-formed entry, with an old date and a
        # catch-all looking Path
        stem = same_as if isinstance(same_as, str) and '/' not in same_as else nm
        return [{'p': '%s/info/%s%s' % (base, stem_of.get('name', nm),
                                        rng.choice(['.TRASHINFO', '.Trashinfo', '.trashINFO'])),
                 't': 'f',
                 'c': '[Trash Info]\nPath=elsewhere/g-decoy\nDeletionDate=1999-01-01T00:00:00\n'}]
    if kind == 'payload-is-fifo':
        return [{'p': ip, 't': 'f', 'c': good}, {'p': pp, 't': 'p'}]
    if kind == 'path-empty':
        return [{'p': ip, 't': 'f', 'c': '[Trash Info]\nPath=\nDeletionDate=2003-03-03T03:03:03\n'}, pay]
    raise ValueError(kind)


def gen_case(rng, index, tier):
    n = rng.randint(2, 6)
    dates = ['2001-01-0%dT00:00:0%d' % (rng.randint(1, 9), rng.randint(0, 9))
             for _ in range(n)]
    names = ['g%d %s' % (i, rng.choice(['a', 'b.txt', 'é', 'x y'])) for i in range(n)]
    L, trashes, entries = trashworld.make(rng, index, n_entries=n, dates=dates,
                                          names=names,
                                          kinds=['file', 'tree', 'empty'])
    base_nodes = copy.deepcopy(L.nodes)
    mk = []
    for j in range(rng.randint(1, 4)):
        t = rng.choice([t for t in trashes])
        kind = rng.choice(MKINDS)
        same = None
        mine = [e for e in entries if e['trash'] == t['rel']]
        if kind in ('no-date', 'invalid-date') and mine and rng.random() < 0.5:
            g = rng.choice(mine)
            same = trashgen.path_value(g['loc'], g['volume'], g['home'])
            kind_l = kind + '-same-path'
        else:
            kind_l = kind
        stem_of.clear()
        if mine:
            stem_of['name'] = rng.choice(mine)['name']
        L.add(malformed_nodes(rng, t, kind, j, index, same_as=same))
        mk.append(kind_l)
    if rng.random() < 0.12:
        # a sibling trash directory (holding none of the well-formed entries)
        # that is not built like one: info or files is a regular file, a
        # dangling link, a link loop
        have = set(n_['p'] for n_ in L.nodes)
        cands = [L.vol_path(m, '.Trash-%d' % L.uid) for m in L.mounts]
        cands = [c for c in cands if c not in have and
                 not any(h.startswith(c + '/') for h in have)]
        if cands:
            c = rng.choice(cands)
            L.add({'p': c, 't': 'd', 'm': 0o700})
            how = rng.choice(['info-file', 'files-file', 'both-files',
                              'info-dangling', 'info-loop'])
            if how in ('info-file', 'both-files'):
                L.add({'p': c + '/info', 't': 'f', 'c': 'junk'})
            if how in ('files-file', 'both-files'):
                L.add({'p': c + '/files', 't': 'f', 'c': 'junk'})
            if how == 'info-dangling':
                L.add({'p': c + '/info', 't': 'l', 'to': 'nowhere'})
            if how == 'info-loop':
                L.add({'p': c + '/info', 't': 'l', 'to': 'info'})
            if how == 'files-file':
                L.add({'p': c + '/info', 't': 'd'})
            mk.append('sibling-trash-dir:' + how)
    case = L.desc()
    case['nodes_g'] = base_nodes
    if 'unreadable-info' in mk or 'unremovable-payload' in mk:
        case['drop_caps'] = True
    case['entries'] = entries
    case['mkinds'] = mk
    case['cmd'] = rng.choice(CMDS)
    case['sort'] = rng.choice([None, 'date', 'path', 'none'])
    case['pattern'] = rng.choice(['g*', 'g[0-2]*', '*a', '*', 'g1*', '*.txt'])
    case['days'] = rng.choice([0, 1, 100000])
    case['now'] = rng.choice(['2001-01-05T00:00:05', '2001-01-06T00:00:00',
                              '2020-01-01T00:00:00'])
    case['listdir_seed'] = rng.getrandbits(30)
    case['trashes'] = [t['rel'] for t in trashes]
    return case


def observe(case, desc, with_m):
    """run the case's command in a world built from desc; return what happened
    to / was said about the G entries, R-normalised"""
    ents = case['entries']
    cmd = case['cmd']
    plan = {'listdir_seed': case['listdir_seed']}
    env = {'TRASH_DATE': case['now']}
    res = {}
    with world.World(desc) as w:
        R = w.R
        gpaths = dict((w.abs(e['loc']), i) for i, e in enumerate(ents))
        gdate = dict((i, e['date'].replace('T', ' ')) for i, e in enumerate(ents))
        s0 = w.snapshot()
        if cmd == 'list':
            r = run.run(w, 'list', [], stdin=b'', plan=plan, env=env)
            rows = trashio.parse_list_output(r.outtext())
            res['g_lines'] = sorted((d, gpaths[p]) for d, p in rows
                                    if p in gpaths and d == gdate[gpaths[p]])
        elif cmd in ('restore-list', 'restore-each'):
            args = ['--sort', case['sort']] if case['sort'] else []
            r = run.run(w, 'restore', args, stdin=b'', cwd=w.R, plan=plan, env=env)
            lst = trashio.parse_restore_listing(r.outtext())
            res['g_listed'] = sorted((d, gpaths[p]) for i, d, p in lst
                                     if p in gpaths and d == gdate[gpaths[p]])
            if cmd == 'restore-each':
                ok = []
                for gi, e in enumerate(ents):
                    lst = trashio.parse_restore_listing(r.outtext())
                    idx = [i for i, d, p in lst if p == w.abs(e['loc']) and
                           d == gdate[gi]]
                    if len(idx) != 1:
                        ok.append((gi, 'not-listed'))
                        continue
                    r2 = run.run(w, 'restore', args, stdin=b'%d\n' % idx[0],
                                 cwd=w.R, plan=plan, env=env)
                    s = w.snapshot()
                    ok.append((gi, 'restored' if e['loc'] in s and
                               trashworld.entry_state(s0, s, e) == 'gone'
                               else 'failed:' + r2.errtext()[-120:].replace(R, '@R')))
                    r = run.run(w, 'restore', args, stdin=b'', cwd=w.R,
                                plan=plan, env=env)
                res['g_restores'] = ok
        elif cmd == 'rm':
            r = run.run(w, 'rm', [case['pattern']], stdin=b'', plan=plan, env=env)
        elif cmd == 'empty-days':
            r = run.run(w, 'empty', [str(case['days'])], stdin=b'', plan=plan, env=env)
        else:
            r = run.run(w, 'empty', [], stdin=b'', plan=plan, env=env)
        s1 = w.snapshot()
        if cmd in ('rm', 'empty-days', 'empty'):
            res['g_states'] = [trashworld.entry_state(s0, s1, e) for e in ents]
        res['exit'] = r.exit
        res['traceback'] = 'Traceback' in r.errtext()
        res['timeout'] = r.timeout
        err = r.errtext().replace(R, '@R')
        res['stderr'] = err[-600:]
        # diagnostics mentioning a well-formed entry
        res['g_in_stderr'] = sorted(
            i for p, i in gpaths.items()
            if p.replace(R, '@R') in err or
            ('/info/%s.trashinfo' % ents[i]['name']) in err)
    return res


def run_case(case):
    out = {'violations': [], 'obs': {}, 'features': []}
    obs = out['obs']
    dG = dict(case)
    dG = {k: case[k] for k in ('mounts', 'uid', 'env', 'cwd')}
    if case.get('drop_caps'):
        dG['drop_caps'] = True
    dG['nodes'] = case['nodes_g']
    a = observe(case, dG, False)
    b = observe(case, case, True)
    if a['timeout'] or b['timeout']:
        out['verdict'] = 'inconclusive'
        out['why'] = 'watchdog'
        return out
    out['features'] += ['cmd:' + case['cmd']] + ['m:' + k for k in case['mkinds']]
    obs['differentials'] = 1
    obs['g_entries_compared'] = len(case['entries'])
    obs['malformed_neighbours'] = len(case['mkinds'])
    keys = [k for k in a if k.startswith('g_') and k != 'g_in_stderr']
    diffs = {}
    for k in keys:
        if a[k] != b.get(k):
            diffs[k] = {'without_M': a[k], 'with_M': b.get(k)}
    if diffs:
        mk = '+'.join(sorted(set(case['mkinds'])))
        out['violations'].append({
            'mechanism': 'malformed-neighbour-changes-%s/%s%s' % (
                case['cmd'], classify(case, b),
                ''),
            'detail': {'diffs': diffs, 'mkinds': case['mkinds'],
                       'with_M': {k: b[k] for k in ('exit', 'traceback', 'stderr')},
                       'without_M': {k: a[k] for k in ('exit', 'traceback', 'stderr')},
                       'cmd': case['cmd'], 'sort': case['sort']}})
    elif b['g_in_stderr'] != a['g_in_stderr']:
        out['violations'].append({
            'mechanism': 'diagnostic-about-well-formed-entry/%s' % case['cmd'],
            'detail': {'with_M': b, 'without_M': a, 'mkinds': case['mkinds']}})
    if b['traceback'] and not a['traceback'] and not diffs:
        obs['traceback_without_effect_on_G'] = 1
    out['nontrivial'] = len(case['entries']) >= 2 and len(case['mkinds']) >= 1
    out['sample_obs'] = {'cmd': case['cmd'], 'mkinds': case['mkinds'],
                         'with_M': {k: b[k] for k in b if k.startswith('g_')}}
    out['verdict'] = 'violation' if out['violations'] else 'ok'
    return out


def classify(case, b):
    """mechanism suffix: which malformed kind is the likely culprit (the one
    whose presence correlates with a crash), else the sorted set"""
    err = b.get('stderr', '')
    if 'UnicodeDecodeError' in err:
        return 'UnicodeDecodeError'
    if 'IsADirectoryError' in err:
        return 'IsADirectoryError'
    if b.get('traceback'):
        last = [l for l in err.strip().split('\n') if l][-1] if err.strip() else ''
        return 'traceback:' + last.split(':')[0][:40]
    return 'no-crash:' + '+'.join(sorted(set(case['mkinds'])))
