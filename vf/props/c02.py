"""C02 - put then restore returns the exact entry to its exact original path,
under every sort mode, from the original directory or any ancestor, after any
history of other commands in between."""
import os

from .. import contracts, gen, putcheck, run, snap, spec, trashio, world
from . import c01

ID = 'C02'
ALLC = ['format_trashinfo', 'for_file', 'parse_path', 'parse_deletion_date',
        'scope', 'parse_indexes']
KINDS = ['file', 'empty', 'tree', 'link_file', 'link_dir', 'link_dangling',
         'dir_empty', 'link_link']


def config(tier):
    return {
        'level': 'exploration',
        'cold_sample': 3 if tier == 'quick' else 20,
        'real_sample': 6 if tier == 'quick' else 40,
        'cases': 2500 if tier == 'quick' else 60000,
        'budget_s': 50 if tier == 'quick' else 560,
        'floors': {'cases': 200, 'roundtrips_ok': 150, 'history_steps': 100,
                   'parents_recreated': 20, 'from_ancestor': 40,
                   'c_format_trashinfo': 150, 'c_parse_indexes': 150},
        'rule': 'case = world (home trash / .Trash/$uid / .Trash-$uid / '
                '--trash-dir) + hostile-named entry of every kind; put; 0-3 '
                'other commands (put/restore/rm/empty DAYS/list on other '
                'entries); optionally the original parent removed; restore '
                'from the original dir, an ancestor, or with the path as '
                'argument, under --sort date/path/none; non-trivial = the '
                'entry was trashed and a restore prompt was reached',
        'assumptions': ['virtual mount table', 'kernel + tmpfs'],
    }


def gen_case(rng, index, tier):
    want_fb = rng.random() < 0.15
    if want_fb:
        # the entry's volume has no usable trash dir: with both fallback
        # switches on it is COPIED to the home trash and copied back by restore
        L = gen.make_layout(rng, volumes=['v1'], home_own_volume=False,
                            xdg='unset', top_states={'v1': 'file'},
                            alt_states={'v1': 'file'})
    else:
        L = gen.make_layout(rng)
    workdirs = c01.setup_workdirs(L, rng)
    tag = 'c%d' % index
    v = rng.choice(L.mounts) if not want_fb else 'v1'
    # the entry lives in its own sub-directory so that the parent can be removed
    d = workdirs[v] + '/proj ' + str(index % 7)
    L.add({'p': d, 't': 'd', 'm': 0o755})
    wd = dict(workdirs)
    wd[v] = d
    arg = c01.add_entry(L, rng, wd, 9, tag, set(), kinds=KINDS,
                        spellings=['rel', 'abs', 'dotslash', 'trail1'],
                        vol=v, name_kw={'allow_bad_utf8': False})
    # add_entry may have put it one level deeper (sub9)
    if arg['spelling'].startswith('-'):
        arg['spelling'] = './' + arg['spelling']
    opts, stdin, env_extra, optclass = c01.pick_options(
        L, rng, wd, [arg], index,
        allowed=['none', 'none', '--trash-dir', '-v', '--home-fallback'])
    if want_fb:
        opts, env_extra, optclass = ['--home-fallback'], \
            {'TRASH_ENABLE_HOME_FALLBACK': '1'}, '--home-fallback+env'
    # other entries for the history
    others = []
    for j in range(3):
        ov = rng.choice(L.mounts)
        od = workdirs[ov] + '/others'
        L.add({'p': od, 't': 'd'})
        nm = 'other%d-%s' % (j, rng.choice(['x', 'y z', 'é']))
        L.add(gen.entry_nodes(rng, od + '/' + nm, rng.choice(['file', 'tree']),
                              tag + 'o%d' % j))
        others.append(od + '/' + nm)
    # a twin: another entry with the SAME base name, in another directory of
    # the same volume (it competes for the same files/N, info/N names)
    twin_dir = workdirs[v] + '/twin'
    L.add({'p': twin_dir, 't': 'd'})
    twin = twin_dir + '/' + os.path.basename(arg['rel'])
    L.add(gen.entry_nodes(rng, twin, rng.choice(['file', 'tree', 'link_dangling']),
                          tag + 'twin'))
    hist = []
    for _ in range(rng.choice([0, 0, 1, 2, 3])):
        hist.append(rng.choice(['put-other', 'put-other', 'restore-other',
                                'rm-other', 'empty-days', 'list', 'put-twin',
                                'put-twin']))
    c01.add_stale(L, rng, [arg], index, p=0.25)
    c01.add_partial_trash_dirs(L, rng)
    case = L.desc()
    case['env'] = dict(case['env'], **env_extra)
    case['args'] = [arg]
    case['opts'] = opts
    case['optclass'] = optclass
    case['others'] = others
    case['twin'] = twin
    case['history'] = hist
    case['remove_parent'] = rng.random() < 0.2
    # the directory the entry was trashed from has since been moved away and a
    # symbolic link left in its place (original locations are strings)
    case['relink_parent'] = not case['remove_parent'] and rng.random() < 0.18
    case['restore_from'] = rng.choice(['orig', 'orig', 'ancestor', 'ancestor',
                                       'root', 'arg-path', 'arg-parent'])
    case['sort'] = rng.choice([None, 'date', 'path', 'none'])
    # --overwrite on a destination that is free (its parent possibly gone):
    # the option changes nothing about a restore that overwrites nothing
    case['restore_overwrite'] = rng.random() < 0.3
    return case


def run_case(case):
    out = {'violations': [], 'obs': {}, 'features': []}
    obs = out['obs']
    a = case['args'][0]

    def acc(r):
        for k, n in r.ccounts.items():
            obs['c_' + k] = obs.get('c_' + k, 0) + n
        for c in r.contracts:
            out['violations'].append({'mechanism': 'contract:' + c['contract'],
                                      'detail': c})

    with world.World(case) as w:
        P = a['rel']
        ent_abs = w.abs(P)
        want_loc = spec.real_entry(ent_abs)
        parent_abs = os.path.dirname(ent_abs)
        s0 = w.snapshot()
        sig0 = snap.subtree(s0, P)
        tdo = None
        if '--trash-dir' in case['opts']:
            tdo = world.subst(case['opts'][case['opts'].index('--trash-dir') + 1], w.R)
        argv = [world.subst(o, w.R) for o in case['opts']] + \
            ['--', world.subst(a['spelling'], w.R)]
        r = run.run(w, 'put', argv, stdin=b'', contracts=ALLC)
        acc(r)
        s1 = w.snapshot()
        if r.timeout or r.audit_ok() is False:
            out['verdict'] = 'inconclusive'
            out['why'] = 'watchdog' if r.timeout else 'audit mismatch'
            return out
        A = putcheck.analyze(s0, s1, [P])
        o = A.outcomes[0]
        out['features'] += ['kind:' + a['kind'], 'opt:' + case['optclass'],
                            'from:' + case['restore_from'],
                            'sort:%s' % case['sort']]
        known_link = o['state'] == 'ALTERED' and o.get('only_symlink_mtime') \
            and c01.fallback_on(case)
        if known_link:
            o = dict(o, state='TRASHED', trash=putcheck.trash_of(o['payload']),
                     info=putcheck.info_for_payload(o['payload']))
        elif o['state'] not in ('TRASHED', 'UNTOUCHED', 'NOTHING'):
            # the first half of the round trip already damaged the entry
            out['violations'].append({
                'mechanism': 'put-left-entry-%s' % o['state'],
                'detail': {'put': r.brief(), 'outcome': {
                    k: v for k, v in o.items() if k != 'diff'},
                    'diff': o.get('diff')}})
        if o['state'] != 'TRASHED':
            obs['not_trashed'] = 1
            out['nontrivial'] = False
            out['verdict'] = 'violation' if out['violations'] else 'ok'
            out['sample_obs'] = {'state': o['state'], 'err': r.errtext()[-200:]}
            return out
        tdir = w.abs(o['trash'])
        out['features'].append('trash:' + (
            'opt' if tdo else 'home' if '.Trash' not in o['trash'] else
            'top' if '/.Trash/' in '/' + o['trash'] else 'alt'))
        info = trashio.read_info(w.abs(o['info']))
        pi = spec.parse_info(info)
        date_txt = (pi['date_raw'] or '').replace('T', ' ')
        # ---- history on other entries
        trashed_others = []
        for step in case['history']:
            obs['history_steps'] = obs.get('history_steps', 0) + 1
            if step == 'put-other':
                cand = [x for x in case['others'] if os.path.lexists(w.abs(x))]
                if cand:
                    x = cand[0]
                    rr = run.run(w, 'put', ['--', w.abs(x)], stdin=b'',
                                 contracts=ALLC)
                    acc(rr)
                    trashed_others.append(x)
            elif step == 'put-twin':
                tw = w.abs(case['twin'])
                if os.path.lexists(tw):
                    targs = (['--trash-dir', tdo] if tdo else []) + ['--', tw]
                    rr = run.run(w, 'put', targs, stdin=b'', contracts=ALLC)
                    acc(rr)
            elif step == 'restore-other' and trashed_others:
                x = trashed_others[-1]
                rl = run.run(w, 'restore', [w.abs(x)], stdin=b'0\n', cwd=w.R,
                             contracts=ALLC)
                acc(rl)
                if os.path.lexists(w.abs(x)):
                    trashed_others.pop()
            elif step == 'rm-other':
                rr = run.run(w, 'rm', ['other*'], stdin=b'', contracts=ALLC)
                acc(rr)
                trashed_others = []
            elif step == 'empty-days':
                rr = run.run(w, 'empty', ['20000'], stdin=b'', contracts=ALLC)
                acc(rr)
            elif step == 'list':
                rr = run.run(w, 'list', [], stdin=b'', contracts=ALLC)
                acc(rr)
        # ---- remove the original parent directory (restore must recreate)
        removed_parent = False
        if case['remove_parent']:
            try:
                os.rmdir(parent_abs)
                removed_parent = True
            except OSError:
                pass
        # ---- ... or move it away and leave a symbolic link in its place
        P_eff = P
        frm = case['restore_from']
        pr = os.path.dirname(want_loc)
        if case.get('relink_parent') and want_loc == ent_abs and \
                pr not in [w.abs(m) for m in case['mounts']] and \
                os.path.isdir(pr) and not os.path.islink(pr) and \
                not (tdir + '/').startswith(pr + '/') and \
                not os.path.lexists(pr + '.moved'):
            os.rename(pr, pr + '.moved')
            os.symlink(os.path.basename(pr) + '.moved', pr)
            P_eff = os.path.dirname(P) + '.moved/' + os.path.basename(P)
            obs['parent_replaced_by_link'] = 1
            out['features'].append('parent-relinked')
            if frm == 'orig':
                frm = 'arg-parent'
        # ---- restore
        rargs = []
        if case['sort']:
            rargs += ['--sort', case['sort']]
        if tdo:
            rargs += ['--trash-dir', tdo]
        if case.get('restore_overwrite'):
            rargs.append('--overwrite')
            obs['restores_with_overwrite'] = 1
        parent_real = os.path.dirname(want_loc)
        cwd = w.R
        if frm == 'orig' and os.path.isdir(parent_real):
            cwd = parent_real
        elif frm == 'ancestor':
            anc = os.path.dirname(parent_real)
            cwd = anc if os.path.isdir(anc) else w.R
            obs['from_ancestor'] = 1
        elif frm == 'root':
            cwd = w.R
            obs['from_ancestor'] = 1
        elif frm == 'arg-path':
            rargs.append(want_loc)
        elif frm == 'arg-parent':
            rargs.append(parent_real)
        sb = putcheck.norm_sig(w.snapshot())
        rl = run.run(w, 'restore', rargs, stdin=b'', cwd=cwd, contracts=ALLC)
        acc(rl)
        lst = trashio.parse_restore_listing(rl.outtext())
        hits = [i for i, d, p in lst if p == want_loc and d == date_txt]

        def viol(mech, **kw):
            d = {'put': r.brief(), 'listing_run': rl.brief(),
                 'want': want_loc, 'date': date_txt, 'history': case['history'],
                 'removed_parent': removed_parent, 'cwd': cwd}
            d.update(kw)
            out['violations'].append({'mechanism': mech, 'detail': d})

        if len(hits) != 1:
            viol('entry-not-listed-exactly-once/%s' % frm, hits=hits,
                 listing=lst[:8])
            out['verdict'] = 'violation'
            return out
        rr = run.run(w, 'restore', rargs, stdin=b'%d\n' % hits[0], cwd=cwd,
                     contracts=ALLC)
        acc(rr)
        sa = putcheck.norm_sig(w.snapshot())
        sigR = snap.subtree(sa, P_eff)
        only_link_mtime = sigR != sig0 and set(sigR) == set(sig0) and all(
            sigR[k] == sig0[k] or (sigR[k][0] == 'l' and sig0[k][0] == 'l' and
                                   sigR[k][:6] == sig0[k][:6]) for k in sig0)
        if only_link_mtime and c01.fallback_on(case):
            # the C01 known finding (cross-device copy recreates symlinks
            # without their mtime) seen through the round trip
            viol('fallback-copy-loses-symlink-mtime',
                 diff=snap.fmt_diff(snap.sig_diff(sig0, sigR), 4))
        elif sigR != sig0:
            viol('restored-entry-differs',
                 diff=snap.fmt_diff(snap.sig_diff(sig0, sigR), 8),
                 restore=rr.brief())
        else:
            obs['roundtrips_ok'] = 1
            if removed_parent:
                obs['parents_recreated'] = 1
        # frame of the restore: only P appears, the pair vanishes, parents created
        bad = []
        for k, x, y in snap.diff(sb, sa):
            if k == P_eff or k.startswith(P_eff + '/'):
                continue
            if k == o['info'] or k == o['payload'] or k.startswith(o['payload'] + '/'):
                if y is None:
                    continue
            if x is None and y is not None and y[0] == 'd' and P.startswith(k + '/'):
                continue
            bad.append((k, snap.fmt_entry(x), snap.fmt_entry(y)))
        if o['info'] in sa or o['payload'] in sa:
            viol('pair-still-in-trash-after-restore', restore=rr.brief())
        if bad:
            viol('restore-changed-something-else', diff=bad[:8],
                 restore=rr.brief())
        out['nontrivial'] = True
        out['sample_obs'] = {'location': want_loc, 'index': hits[0],
                             'listing_len': len(lst)}
    out['verdict'] = 'violation' if out['violations'] else 'ok'
    return out
