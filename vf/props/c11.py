"""C11 - purging touches nothing outside files/ and info/ of the trash dirs it
operates on and follows no symlink."""
import os

from .. import gen, putcheck, run, snap, spec, trashgen, trashworld, world

ID = 'C11'


def config(tier):
    return {
        'level': 'exploration',
        'cold_sample': 3 if tier == 'quick' else 20,
        'cases': 6000 if tier == 'quick' else 100000,
        'budget_s': 45 if tier == 'quick' else 560,
        'floors': {'cases': 300, 'outward_links_purged': 300,
                   'mutating_events_checked': 3000, 'canaries_checked': 600},
        'rule': 'case = trash dirs whose payloads are/contain symlinks '
                '(absolute, relative, dangling) to canary files and '
                'directories outside the trash, odd info names '
                '(.trashinfo-suffixed, the name ".trashinfo", newlines), trash '
                'dirs reached through a symlink; command = trash-empty / '
                'trash-empty DAYS / trash-rm PATTERN; non-trivial = at least '
                'one outward symlink was purged',
        'assumptions': ['event trace = all mutating calls (audit-hook '
                        'cross-check per run)'],
    }


def gen_case(rng, index, tier):
    L, trashes, entries = trashworld.make(
        rng, index, n_entries=rng.randint(1, 5),
        dates=['2001-01-01T00:00:00'])
    # canaries outside the trash
    canaries = []
    for v in L.mounts:
        base = L.home if v in ('home',) or (v == '' and 'home' not in L.mounts) \
            else v
        cdir = L.vol_path(base, 'precious') if base else 'precious'
        L.add(gen.entry_nodes(rng, cdir, 'tree', 'canary%d' % index))
        L.add(gen.entry_nodes(rng, cdir + '-file', 'file', 'canaryf%d' % index))
        canaries.append(cdir)
        canaries.append(cdir + '-file')
    n_out = 0
    extra = []
    abyss = False
    hostile = False
    for j in range(rng.randint(1, 4)):
        t = rng.choice(trashes)
        can = rng.choice(canaries)
        name = rng.choice(['lnk%d' % j, 'l\nk%d' % j, 'x.trashinfo', 'a b%d' % j,
                           '-rf%d' % j, 'é%d' % j])
        if any(e['trash'] == t['rel'] and e['name'] == name for e in entries + extra):
            name = 'lnk%d_%d' % (j, index)
        form = rng.choice(['abs', 'rel', 'abs_slash'])
        pay = '%s/files/%s' % (t['rel'], name)
        if form == 'abs':
            target = '@/' + can
        elif form == 'abs_slash':
            target = '@/' + can + '/'
        else:
            target = os.path.relpath('/' + can, '/' + os.path.dirname(pay))
        shape = rng.choice(['link', 'link', 'tree', 'deep'])
        if rng.random() < 0.02 and '\n' not in name:
            shape = 'abyss'
            abyss = True
        elif rng.random() < 0.08:
            shape = 'ro-tree'
            hostile = True
        base = (L.home if t['home'] else t['volume'])
        loc = '/'.join(x for x in (base, 'docs', 'orig-' + name.replace('\n', '_')) if x)
        pv = trashgen.path_value(loc, t['volume'], t['home'])
        L.add({'p': '%s/info/%s.trashinfo' % (t['rel'], name), 't': 'f',
               'c': world.trashinfo_text(pv, '2001-01-01T00:00:00'),
               'sub': True})
        if shape == 'link':
            L.add({'p': pay, 't': 'l', 'to': target})
        elif shape == 'ro-tree':
            # a read-only directory inside the trashed tree (the run is made
            # without CAP_DAC_OVERRIDE): its children cannot be unlinked;
            # whatever the purge does about that, it must not touch what the
            # links inside point to
            L.add({'p': pay, 't': 'd', 'm': 0o755})
            L.add({'p': pay + '/ro', 't': 'd', 'm': rng.choice([0o555, 0o500])})
            L.add({'p': pay + '/ro/out', 't': 'l', 'to': target if form != 'rel' else
                   os.path.relpath('/' + can, '/' + pay + '/ro')})
            L.add({'p': pay + '/ro/f', 't': 'f', 'c': 'read-only neighbour'})
            L.add({'p': pay + '/locked', 't': 'd', 'm': 0o000})
            L.add({'p': pay + '/locked/out', 't': 'l', 'to': '@/' + can})
        elif shape == 'abyss':
            # deeper than Python's recursion limit (a recursive remover gives
            # up, whatever takes over must not follow links either); outward
            # links sit at the bottom and half way down
            L.add({'p': pay, 't': 'd', 'm': 0o755})
            cur = pay
            depth = rng.choice([230, 260, 300])
            for dpt in range(depth):
                cur = cur + '/d'
                L.add({'p': cur, 't': 'd', 'm': 0o755})
                if dpt in (depth // 2, depth - 1):
                    L.add({'p': cur + '/out', 't': 'l', 'to': '@/' + can})
                    L.add({'p': cur + '/f', 't': 'f', 'c': 'deep file'})
        else:
            L.add({'p': pay, 't': 'd', 'm': 0o755})
            cur = pay
            for dpt in range(rng.randint(1, 4) if shape == 'deep' else 1):
                L.add({'p': cur + '/f%d' % dpt, 't': 'f', 'c': 'x%d' % dpt})
                L.add({'p': cur + '/out%d' % dpt, 't': 'l', 'to':
                       target if form != 'rel' else
                       os.path.relpath('/' + can, '/' + cur)})
                L.add({'p': cur + '/dangling%d' % dpt, 't': 'l', 'to': 'nowhere'})
                cur = cur + '/s%d' % dpt
                L.add({'p': cur, 't': 'd', 'm': rng.choice([0o755, 0o700])})
        n_out += 1
        extra.append({'trash': t['rel'], 'name': name, 'loc': loc,
                      'kind': 'outlink-' + shape})
    odd = []
    if rng.random() < 0.25:
        # an info file named exactly ".trashinfo": its payload name is ""
        t = rng.choice(trashes)
        L.add({'p': t['rel'] + '/info/.trashinfo', 't': 'f',
               'c': world.trashinfo_text('whatever', '2001-01-01T00:00:00')})
        odd.append('dot-trashinfo')
    if rng.random() < 0.2:
        # info files whose payload name would be '.' or '..'
        t = rng.choice(trashes)
        nm = rng.choice(['...trashinfo', '..trashinfo'])
        L.add({'p': t['rel'] + '/info/' + nm, 't': 'f',
               'c': world.trashinfo_text('whatever2', '2001-01-01T00:00:00')})
        odd.append('dots-trashinfo')
    if rng.random() < 0.15:
        # info names made of compatibility look-alikes of '.' and '/'
        # (U+2025, U+FF0F, U+FE52, U+2024): one name in info/, never a path;
        # their payload is missing, things they would "normalise" to exist
        t = rng.choice(trashes)
        par = os.path.dirname(t['rel'])
        L.add({'p': (par + '/' if par else '') + 'keep', 't': 'd'})
        L.add({'p': (par + '/' if par else '') + 'keep/precious', 't': 'f', 'c': 'keep me'})
        for nm in rng.sample(['\u2025', '\u2025\uff0f\u2025\uff0fkeep', '\u2024\u2024',
                              '\uff0e\uff0e', 'lnk0\uff0f', '\ufe52\ufe52\uff0fkeep'], 2):
            L.add({'p': t['rel'] + '/info/' + nm + '.trashinfo', 't': 'f',
                   'c': world.trashinfo_text('whatever3', '2001-01-01T00:00:00')})
        odd.append('lookalike-names')
    if rng.random() < 0.2:
        t = rng.choice(trashes)
        L.add({'p': t['rel'] + '/files/orphan link', 't': 'l',
               'to': '@/' + rng.choice(canaries)})
        odd.append('orphan-link')
    # trash dir reached through a symlink
    via_link = None
    opts = []
    cmd = rng.choice(['empty', 'empty', 'empty-days', 'rm', 'rm'])
    if cmd.startswith('empty') and rng.random() < 0.3:
        t = rng.choice(trashes)
        L.add({'p': L.home + '/trash-link', 't': 'l', 'to': '@/' + t['rel']})
        opts = ['--trash-dir', '@/' + L.home + '/trash-link']
        via_link = t['rel']
    elif cmd.startswith('empty') and rng.random() < 0.3:
        # the trash dir spelled through '<symlink to dir>/..': the kernel goes
        # to the parent of the link's TARGET; a lexical reading lands in a
        # bystander trash dir holding entries with the same names
        t = rng.choice(trashes)
        X = os.path.dirname(t['rel'])
        bn = os.path.basename(t['rel'])
        P = L.home + '/bystander'
        L.add({'p': X + '/subx', 't': 'd'})
        L.add({'p': P, 't': 'd'})
        L.add({'p': P + '/lk', 't': 'l', 'to': '@/' + X + '/subx'})
        L.add(world.ensure_trash_dirs(P + '/' + bn))
        for e in entries + extra:
            if e['trash'] == t['rel'] and '/' not in e['name']:
                L.add({'p': '%s/%s/info/%s.trashinfo' % (P, bn, e['name']), 't': 'f',
                       'c': world.trashinfo_text('bystander/x', '2001-01-01T00:00:00')})
                L.add({'p': '%s/%s/files/%s' % (P, bn, e['name']), 't': 'f',
                       'c': 'bystander payload'})
        opts = ['--trash-dir', '@/' + P + '/lk/../' + bn]
        via_link = t['rel']
        odd.append('trash-dir-via-link-dotdot')
    if cmd.startswith('empty') and rng.random() < 0.35:
        # the verbose modes walk the same paths (and may touch them to
        # describe them)
        opts = opts + [rng.choice(['-v', '-v', '-vv', '--verbose', '-f'])]
    case = L.desc()
    case['env'] = dict(case['env'], TRASH_DATE='2020-01-01T00:00:00')
    case['cmd'] = cmd
    case['opts'] = opts
    case['pattern'] = rng.choice(['*', '*', 'orig-*', '*k*', '/*'])
    case['days'] = rng.choice([0, 1, 365, 100000])
    case['trashes'] = [t['rel'] for t in trashes]
    case['canaries'] = canaries
    case['n_out'] = n_out
    case['odd'] = odd
    case['via_link'] = via_link
    case['abyss'] = abyss
    if hostile:
        case['drop_caps'] = True
    case['entries'] = entries
    case['fseed'] = rng.getrandbits(30)
    case['nfaults'] = 2
    return case


def run_case(case):
    out = {'violations': [], 'obs': {}, 'features': []}
    obs = out['obs']
    with world.World(case) as w:
        s0 = w.snapshot()
        opts = [world.subst(o, w.R) for o in case['opts']]
        plan0 = {}
        if case.get('abyss'):
            plan0 = {'recursion_limit': 220}
            obs['deeper_than_recursion_limit'] = 1
        if case['cmd'] == 'empty':
            r = run.run(w, 'empty', opts, stdin=b'', plan=plan0)
        elif case['cmd'] == 'empty-days':
            r = run.run(w, 'empty', opts + [str(case['days'])], stdin=b'', plan=plan0)
        else:
            r = run.run(w, 'rm', [case['pattern']], stdin=b'', plan=plan0)
        if case.get('abyss') and 'RecursionError' in r.errtext():
            obs['recursion_errors_seen'] = 1
        s1 = w.snapshot()
        if r.timeout or r.audit_ok() is False:
            out['verdict'] = 'inconclusive'
            out['why'] = 'watchdog' if r.timeout else 'audit mismatch'
            return out
        out['features'] += ['cmd:' + case['cmd']] + ['odd:' + o for o in case['odd']]
        if case['via_link']:
            out['features'].append('via-link')
        # (i) everything outside files/ and info/ identical
        ci = trashworld.created_inside(s0, s1, case['trashes'])
        if ci:
            out['violations'].append({
                'mechanism': 'purge-created-something-in-trash/' + case['cmd'],
                'detail': {'created': ci[:6], 'run': r.brief()}})
        od = trashworld.outside_trash_diff(s0, s1, case['trashes'])
        if od:
            out['violations'].append({
                'mechanism': 'changed-outside-trash/' + case['cmd'],
                'detail': {'diff': od[:8], 'run': r.brief()}})
        for c in case['canaries']:
            obs['canaries_checked'] = obs.get('canaries_checked', 0) + 1
        # (ii) trace monitor
        roots = []
        for t in case['trashes']:
            rt = os.path.realpath(w.abs(t))
            roots.append(rt + '/files')
            roots.append(rt + '/info')
        bad = []
        for e in r.mut():
            obs['mutating_events_checked'] = obs.get('mutating_events_checked', 0) + 1
            for p in list(e['p']) + ([e['follows']] if e.get('follows') else []):
                if p is None:
                    continue
                if not any(p.startswith(x + '/') and len(p) > len(x) + 1
                           for x in roots):
                    bad.append(e)
        if bad:
            out['violations'].append({
                'mechanism': 'mutating-op-outside-files-info/%s/%s' % (
                    case['cmd'], bad[0]['op']),
                'detail': {'events': bad[:5], 'run': r.brief(),
                           'roots': roots}})
        if r.escapes():
            out['violations'].append({'mechanism': 'fence-escape',
                                      'detail': {'esc': r.escapes()[:3]}})
        # how many outward links were actually purged
        purged = 0
        for k in s0:
            if k not in s1 and s0[k][0] == 'l':
                purged += 1
        obs['outward_links_purged'] = purged
        # well-formed kept entries of other trash dirs etc. are C10/C12's job;
        # here: kept payload trees must not have lost inner files (partial
        # deletion through a followed link would show outside; inside it is
        # the entry-state check)
        for e in case['entries']:
            st = trashworld.entry_state(s0, s1, e)
            if st not in ('intact', 'gone'):
                out['violations'].append({
                    'mechanism': 'entry-%s/%s' % (st, case['cmd']),
                    'detail': {'entry': e, 'run': r.brief(), 'odd': case['odd']}})
        # ---- the same purge with one removal inside a tree failing (EACCES /
        # EPERM, as for a non-root user): error handling must not reach out
        ref_events = [e for e in r.events if e['c'] == 'M' and
                      e['op'] in ('unlink', 'rmdir', 'remove')]
        n_fault_runs = 0
        if ref_events and not out['violations']:
            import random
            frng = random.Random(case.get('fseed', 0))
            picks = frng.sample(ref_events, min(len(ref_events), case.get('nfaults', 2)))
            for fe in picks:
                err = frng.choice([13, 1, 30])
                with world.World(case) as w2:
                    t0 = w2.snapshot()
                    plan = {'faults': {str(fe['k']): err}}
                    opts2 = [world.subst(o, w2.R) for o in case['opts']]
                    if case['cmd'] == 'empty':
                        r2 = run.run(w2, 'empty', opts2, stdin=b'', plan=plan)
                    elif case['cmd'] == 'empty-days':
                        r2 = run.run(w2, 'empty', opts2 + [str(case['days'])],
                                     stdin=b'', plan=plan)
                    else:
                        r2 = run.run(w2, 'rm', [case['pattern']], stdin=b'', plan=plan)
                    t1 = w2.snapshot()
                    n_fault_runs += 1
                    od2 = trashworld.outside_trash_diff(t0, t1, case['trashes'])
                    if od2:
                        out['violations'].append({
                            'mechanism': 'changed-outside-trash-after-failed-removal/%s' % case['cmd'],
                            'detail': {'diff': od2[:8], 'run': r2.brief(),
                                       'fault': [fe['op'], err,
                                                 [(p or '').replace(w.R, '@R') for p in fe['p']]]}})
                    roots2 = []
                    for t in case['trashes']:
                        rt = os.path.realpath(w2.abs(t))
                        roots2 += [rt + '/files', rt + '/info']
                    for e in r2.mut():
                        for p in list(e['p']) + ([e['follows']] if e.get('follows') else []):
                            if p and not any(p.startswith(x + '/') and len(p) > len(x) + 1
                                             for x in roots2):
                                out['violations'].append({
                                    'mechanism': 'mutating-op-outside-files-info-after-failed-removal/%s/%s' % (case['cmd'], e['op']),
                                    'detail': {'event': e, 'run': r2.brief()}})
                                break
        obs['fault_runs'] = n_fault_runs
        # ---- somebody else is at work in the same trash: right before one of
        # the operations of the purge a directory inside a trashed tree is
        # moved aside and a symbolic link to a directory OUTSIDE takes its
        # name.  What the link points to stays untouched.
        n_swaps = 0
        tree_canaries = [c for c in case['canaries'] if s0.get(c, ('',))[0] == 'd']
        if case.get('index', 0) % 3 == 1 and not out['violations'] and tree_canaries:
            import random
            srng = random.Random(case.get('fseed', 0) + 1)
            froots = [t + '/files/' for t in case['trashes']]
            cands = {}
            for e in r.events:
                for p in e.get('p') or []:
                    rel = w.rel(p) if p else None
                    if not rel:
                        continue
                    for v in (rel, os.path.dirname(rel)):
                        if v in s0 and s0[v][0] == 'd' and \
                                any(v.startswith(fr) for fr in froots):
                            cands.setdefault((v, e['op']), e['k'])
            picks = sorted(cands.items())
            srng.shuffle(picks)
            for (victim, op_), k_ in picks[:8]:
                with world.World(case) as w3:
                    u0 = w3.snapshot()
                    plan = dict(plan0, swap_before={
                        'k': k_, 'victim': w3.abs(victim),
                        'aside': w3.abs(victim) + '.moved-aside',
                        'to': w3.abs(tree_canaries[0])})
                    opts3 = [world.subst(o, w3.R) for o in case['opts']]
                    if case['cmd'] == 'empty':
                        r3 = run.run(w3, 'empty', opts3, stdin=b'', plan=plan)
                    elif case['cmd'] == 'empty-days':
                        r3 = run.run(w3, 'empty', opts3 + [str(case['days'])],
                                     stdin=b'', plan=plan)
                    else:
                        r3 = run.run(w3, 'rm', [case['pattern']], stdin=b'', plan=plan)
                    u1 = w3.snapshot()
                    n_swaps += 1
                    od3 = trashworld.outside_trash_diff(u0, u1, case['trashes'])
                    if od3:
                        out['violations'].append({
                            'mechanism': 'changed-outside-trash-after-directory-swap/%s' % case['cmd'],
                            'detail': {'diff': od3[:8], 'run': r3.brief(),
                                       'swapped': victim, 'before_op': [k_, op_]}})
                        break
        obs['directory_swaps'] = n_swaps
        # ---- started with standard input CLOSED, from a directory that holds
        # entries named like the payloads: descriptor 0 is then free for the
        # program's own opens, and nothing may end up acting on the cwd
        if case.get('index', 0) % 4 == 2 and not out['violations']:
            with world.World(case) as w4:
                twins = w4.R + '/cwd-with-twins'
                os.makedirs(twins)
                for e in case['entries']:
                    nm = e['name']
                    try:
                        if e['kind'] in ('tree', 'dir_empty'):
                            os.makedirs(twins + '/' + nm + '/inner')
                            open(twins + '/' + nm + '/inner/keep', 'w').close()
                        else:
                            open(twins + '/' + nm, 'w').close()
                        open(twins + '/' + nm + '.trashinfo', 'w').close()
                    except OSError:
                        pass
                v0 = w4.snapshot()
                plan = dict(plan0, stdin_closed=True)
                opts4 = [world.subst(o, w4.R) for o in case['opts']]
                if case['cmd'] == 'empty':
                    r4 = run.run(w4, 'empty', opts4, stdin=b'', plan=plan, cwd=twins)
                elif case['cmd'] == 'empty-days':
                    r4 = run.run(w4, 'empty', opts4 + [str(case['days'])],
                                 stdin=b'', plan=plan, cwd=twins)
                else:
                    r4 = run.run(w4, 'rm', [case['pattern']], stdin=b'', plan=plan,
                                 cwd=twins)
                v1 = w4.snapshot()
                obs['runs_with_stdin_closed'] = 1
                od4 = trashworld.outside_trash_diff(v0, v1, case['trashes'])
                if od4:
                    out['violations'].append({
                        'mechanism': 'changed-outside-trash-with-stdin-closed/%s' % case['cmd'],
                        'detail': {'diff': od4[:8], 'run': r4.brief()}})
        if case.get('abyss'):
            # how deep the purge gets before RecursionError depends on the
            # frames already on the interpreter's stack: not comparable
            # between fork mode and a fresh interpreter
            out['replayable'] = False
        out['nontrivial'] = purged > 0
        out['sample_obs'] = {'exit': r.exit, 'purged_links': purged,
                             'stderr': r.errtext()[-200:]}
    out['verdict'] = 'violation' if out['violations'] else 'ok'
    return out
