"""C14 - no purge without consent: --dry-run and a negative answer change
nothing; dry-run prints exactly what the real run removes."""
import os

from .. import gen, putcheck, run, snap, spec, trashgen, trashworld, world

ID = 'C14'

NEG = ['', 'n', 'N', 'no', ' y', '\ty', 'ñ', 'ｙ', 'Ｙ', 'ʏes', 'x' * 300,
       'ny', '0', 'true', '-y', '"y"', 'n y', '.', 'oui', 'да']
POS = ['y', 'Y', 'yes', 'YES', 'y ', 'yn', 'Yup', 'y\x00', 'yyyy']
NAMES = ['a', 'b c', 'ü', 'x.txt', '-f', 'q?', '*', 'long' * 10, 'z%41',
         "it's", 'semi;colon', 'tab\there', 'report.trashinfo', 'x.trashinfo.bak',
         '.trashinfo', 'a.trashinfo.trashinfo', 'caf\u00e9', 'cafe\u0301']


def config(tier):
    return {
        'level': 'exploration',
        'cold_sample': 3 if tier == 'quick' else 20,
        'cases': 3500 if tier == 'quick' else 70000,
        'budget_s': 45 if tier == 'quick' else 560,
        'floors': {'cases': 250, 'dry_runs': 80, 'negative_replies': 120,
                   'positive_replies': 40, 'pty_runs': 60,
                   'dryrun_lines_matched': 200},
        'rule': 'case = generated trash content (incl. orphans, undated, info '
                'without payload) x DAYS absent/present x --trash-dir x -v x '
                'mode: --dry-run | -i with reply over a pipe | terminal (pty) '
                'on stdin with reply; non-trivial = the real run would remove '
                'something',
        'assumptions': ['a pty on fd 0 stands for "a terminal on stdin"'],
    }


def gen_case(rng, index, tier):
    n = rng.randint(1, 7)
    dates = [rng.choice(['2001-01-01T00:00:00', '2019-12-31T23:59:59',
                         '2020-06-01T00:00:00', '2030-01-01T00:00:00'])
             for _ in range(n)]
    L, trashes, entries = trashworld.make(
        rng, index, n_entries=n, dates=dates,
        names=[rng.choice(NAMES) + (str(i) if rng.random() < 0.7 else '')
               for i in range(n)])
    extras = []
    if rng.random() < 0.5:
        t = rng.choice(trashes)
        L.add({'p': t['rel'] + '/files/orphan-%d' % index, 't': 'f', 'c': 'o'})
        extras.append('orphan')
    if rng.random() < 0.35:
        t = rng.choice(trashes)
        L.add({'p': t['rel'] + '/info/lonely-%d.trashinfo' % index, 't': 'f',
               'c': '[Trash Info]\nPath=gone\nDeletionDate=1999-01-01T00:00:00\n'})
        extras.append('info-without-payload')
    if rng.random() < 0.3:
        t = rng.choice(trashes)
        L.add({'p': t['rel'] + '/info/undated-%d.trashinfo' % index, 't': 'f',
               'c': '[Trash Info]\nPath=und\n'})
        L.add({'p': t['rel'] + '/files/undated-%d' % index, 't': 'f', 'c': 'u'})
        extras.append('undated')
    opts = []
    if rng.random() < 0.3:
        t = rng.choice(trashes)
        opts += ['--trash-dir', '@/' + t['rel']]
    if rng.random() < 0.3:
        opts.append('-v')
    days = rng.choice([None, None, 0, 1, 100, 5000])
    mode = rng.choice(['dry', 'dry', 'i-neg', 'i-neg', 'i-pos', 'pty-neg',
                       'pty-neg', 'pty-pos', 'pty-f'])
    reply = None
    if mode in ('i-neg', 'pty-neg'):
        reply = rng.choice(NEG)
        if rng.random() < 0.15:
            reply = None                  # EOF
    elif mode in ('i-pos', 'pty-pos'):
        reply = rng.choice(POS)
    case = L.desc()
    case['env'] = dict(case['env'], TRASH_DATE='2020-06-15T12:00:00')
    case['opts'] = opts
    case['days'] = days
    case['mode'] = mode
    case['reply'] = reply
    case['trashes'] = [t['rel'] for t in trashes]
    case['extras'] = extras
    if mode in ('i-neg', 'i-pos') and rng.random() < 0.3:
        # -f given BEFORE -i: the last of the two wins (as for rm), the
        # question is asked
        case['iopt'] = rng.choice([['-f', '-i'], ['-fi'], ['-f', '--interactive'],
                                   ['-i', '-f', '-i']])
    if mode == 'dry' and rng.random() < 0.3:
        # a dry run that is ALSO interactive and answered yes: still a dry run
        case['dry_interactive'] = rng.choice([['-i'], ['--interactive'], ['-i', '-v']])
        case['reply'] = rng.choice(POS)
    elif mode == 'dry' and rng.random() < 0.3:
        # a terminal / locale that cannot show every name: whatever a dry run
        # then prints (or refuses to print), it removes nothing
        case['stdout_encoding'] = rng.choice(['ascii', 'ascii', 'latin-1'])
        t = rng.choice(trashes)
        L.add({'p': t['rel'] + '/files/orphan-caf\u00e9\u4e2d-%d' % index, 't': 'f', 'c': 'o'})
    return case


def base_args(case, w):
    a = [world.subst(o, w.R) for o in case['opts']]
    if case['days'] is not None:
        a.append(str(case['days']))
    return a


def removed_paths(s0, s1):
    """top-most paths that the run removed (anything, anywhere)"""
    gone = set(k for k in s0 if k not in s1)
    return set(k for k in gone if putcheck.parent(k) not in gone)


def run_case(case):
    out = {'violations': [], 'obs': {}, 'features': []}
    obs = out['obs']
    mode = case['mode']
    out['features'] += ['mode:' + mode, 'days:%s' % case['days']] + \
        ['x:' + x for x in case['extras']]
    # reference: what the plain non-interactive run removes in an identical world
    with world.World(case) as wref:
        r0 = wref.snapshot()
        rr = run.run(wref, 'empty', base_args(case, wref) + ['-f'], stdin=b'')
        r1 = wref.snapshot()
        ref_removed = removed_paths(r0, r1)
        ref_final = putcheck.norm_sig(r1)
    with world.World(case) as w:
        s0 = w.snapshot()
        args = base_args(case, w)
        if mode == 'dry' and case.get('dry_interactive'):
            obs['interactive_dry_runs'] = 1
            r = run.run(w, 'empty', args + ['--dry-run'] + case['dry_interactive'],
                        stdin=(case['reply'] + '\n').encode('utf-8'))
        elif mode == 'dry':
            r = run.run(w, 'empty', args + ['--dry-run'], stdin=b'',
                        plan={'stdout_encoding': case['stdout_encoding']}
                        if case.get('stdout_encoding') else None)
        elif mode.startswith('i-'):
            data = b'' if case['reply'] is None else \
                (case['reply'] + '\n').encode('utf-8')
            if case.get('iopt'):
                obs['force_then_interactive'] = 1
            r = run.run(w, 'empty', args + (case.get('iopt') or ['-i']), stdin=data)
        elif mode == 'pty-f':
            r = run.run(w, 'empty', args + ['-f'], stdin=b'', pty_stdin=True)
        else:
            data = b'\x04' if case['reply'] is None else \
                (case['reply'].replace('\x00', '') + '\n').encode('utf-8')
            r = run.run(w, 'empty', args, stdin=data, pty_stdin=True)
        s1 = w.snapshot()
        if r.timeout or r.audit_ok() is False:
            out['verdict'] = 'inconclusive'
            out['why'] = 'watchdog' if r.timeout else 'audit mismatch'
            return out

        def viol(mech, **kw):
            d = {'run': r.brief(), 'mode': mode, 'reply': case['reply'],
                 'ref_removed': sorted(ref_removed)[:8]}
            d.update(kw)
            out['violations'].append({'mechanism': mech, 'detail': d})

        changed = snap.diff(putcheck.norm_sig(s0), putcheck.norm_sig(s1))
        if mode == 'dry':
            obs['dry_runs'] = 1
            if changed:
                viol('dry-run-changed-something',
                     diff=snap.fmt_diff(changed, 6))
            if case.get('dry_interactive'):
                # (what is announced after the question is not compared: the
                # prompt shares the stream; the frame is what matters here)
                out['nontrivial'] = True
                out['verdict'] = 'violation' if out['violations'] else 'ok'
                return out
            printed = set()
            narrow = case.get('stdout_encoding')
            if narrow:
                obs['dry_runs_on_a_narrow_stdout'] = 1
            if narrow and r.exit != 0 and 'UnicodeEncodeError' in r.errtext():
                obs['unprintable_name_refused'] = 1
                out['nontrivial'] = True
                out['verdict'] = 'violation' if out['violations'] else 'ok'
                return out
            for line in (r.out.decode(narrow, 'replace') if narrow
                         else r.outtext()).split('\n'):
                if line.startswith('would remove '):
                    printed.add(line[len('would remove '):])
            existing = set(p for p in printed
                           if os.path.lexists(p))
            # D = {p in P : p existed}
            ref_abs = set(w.R + '/' + k for k in ref_removed)
            # ref paths are relative to ANOTHER root: compare relative
            pr_rel = set(w.rel(p) for p in existing if w.rel(p) is not None)
            if pr_rel != ref_removed:
                viol('dry-run-output-differs-from-real-run',
                     only_printed=sorted(pr_rel - ref_removed)[:6],
                     only_removed=sorted(ref_removed - pr_rel)[:6])
            else:
                obs['dryrun_lines_matched'] = len(pr_rel)
            obs['phantom_lines'] = len(printed) - len(existing)
        elif mode in ('i-neg', 'pty-neg'):
            obs['negative_replies'] = 1
            if mode.startswith('pty'):
                obs['pty_runs'] = 1
            if changed:
                viol('negative-reply-changed-something/%s' % mode,
                     diff=snap.fmt_diff(changed, 6))
        elif mode in ('i-pos', 'pty-pos', 'pty-f'):
            if mode != 'pty-f':
                obs['positive_replies'] = 1
            if mode.startswith('pty'):
                obs['pty_runs'] = 1
            got = removed_paths(s0, s1)
            other = [(k, x, y) for k, x, y in changed
                     if not any(k == g or k.startswith(g + '/') for g in got)]
            if got != ref_removed or other:
                viol('consented-run-differs-from-noninteractive/%s' % mode,
                     only_here=sorted(got - ref_removed)[:6],
                     only_ref=sorted(ref_removed - got)[:6],
                     other=snap.fmt_diff(other, 6))
        out['nontrivial'] = len(ref_removed) > 0
        out['sample_obs'] = {'exit': r.exit, 'mode': mode,
                             'reply': case['reply'],
                             'ref_removed': len(ref_removed),
                             'stdout': r.outtext()[-200:]}
    out['verdict'] = 'violation' if out['violations'] else 'ok'
    return out
