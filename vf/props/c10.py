"""C10 - trash-empty DAYS purges exactly the entries trashed more than DAYS
days ago; without DAYS everything incl. payloads without info."""
import datetime
import os

from .. import gen, putcheck, run, sched, snap, spec, trashgen, trashworld, world

ID = 'C10'

DAYS = [0, 1, 2, 7, 30, 365, 36500, 10 ** 7]
DELTAS = [0, 1, -1, 60, -60, 86400, -86400, 2, -2, 3599, -3601, 1800, -1800,
          -3599, 3601, 7200, -7200]
FMT = '%Y-%m-%dT%H:%M:%S'


def config(tier):
    return {
        'level': 'exploration',
        'cold_sample': 4 if tier == 'quick' else 30,
        'cases': 7000 if tier == 'quick' else 120000,
        'budget_s': 45 if tier == 'quick' else 560,
        'floors': {'cases': 400, 'boundary_entries': 800, 'removed': 300,
                   'kept': 300, 'undated_kept': 50, 'no_days_runs': 40},
        'rule': 'case = crafted trash dirs (home + volume) with 1-12 entries '
                'dated now-DAYS*86400+delta (delta in 0,+-1s,+-60s,+-1day,...), '
                'far past, future, missing, malformed, duplicated; DAYS from '
                '{0,1,2,7,30,365,36500,1e7}; TRASH_DATE=now; also runs without '
                'DAYS; non-trivial = an entry within +-1 day of the threshold',
        'assumptions': ['TRASH_DATE is the clock', 'vf/spec.py age rule'],
    }


def rand_now(rng):
    special = ['2024-02-29T12:00:00', '2021-03-28T02:30:00',
               '2021-10-31T02:30:00', '2000-01-01T00:00:00',
               '2038-01-19T03:14:08', '1999-12-31T23:59:59',
               '2024-03-01T00:00:00', '2023-03-01T00:00:00']
    if rng.random() < 0.3:
        return rng.choice(special)
    return trashgen.rand_date(rng, 1990, 2100)


def gen_race_case(rng, index, tier):
    """trash-empty DAYS racing with a trash-put of a fresh file into the
    same trash dir: every interleaving in which the put runs atomically at
    some point of the purge (and random finer ones)"""
    now = '2024-06-30T12:00:00'
    dates = ['2024-01-01T00:00:00', '2024-06-30T11:00:00', '2023-05-05T05:05:05']
    L, trashes, entries = trashworld.make(
        rng, index, n_entries=rng.randint(1, 3), dates=dates, volumes=[],
        home_own=False, xdg='unset', names=['old a', 'recent b', 'old c'],
        kinds=['file', 'tree'], trash_volumes_env=False)
    for e in entries:
        e['dkind'] = 'normal'
        e['text_date'] = e['date']
    t = trashes[0]
    if rng.random() < 0.5:
        L.add({'p': t['rel'] + '/files/orphan-%d' % index, 't': 'f', 'c': 'orphan'})
    L.add({'p': L.home + '/fresh', 't': 'd'})
    L.add(gen.entry_nodes(rng, L.home + '/fresh/fresh.txt', 'file', 'fresh%d' % index))
    case = L.desc()
    case['env'] = dict(case['env'], TRASH_DATE=now)
    case['kind'] = 'race'
    case['now'] = now
    case['days'] = rng.choice([1, 30])
    case['entries'] = entries
    case['trashes'] = [x['rel'] for x in trashes]
    case['tdir'] = t['rel']
    case['fresh'] = L.home + '/fresh/fresh.txt'
    case['seed'] = rng.getrandbits(30)
    case['max_sched'] = 60 if tier == 'quick' else 400
    return case


def run_race(case):
    import random
    out = {'violations': [], 'obs': {}, 'features': ['race']}
    obs = out['obs']
    now = datetime.datetime.strptime(case['now'], FMT)
    ex = sched.Explorer(1)
    rng = random.Random(case['seed'])
    n = 0
    seen = set()
    while n < case['max_sched']:
        pol = ex if not ex.finished else sched.RandomPolicy(rng, 0.5)
        if pol is ex:
            ex.start_run()
        with world.World(case) as w:
            s0 = w.snapshot()
            tdir = w.abs(case['tdir'])
            actors = [
                {'cmd': 'empty', 'args': ['--trash-dir', tdir, str(case['days'])],
                 'cwd': w.cwd()},
                {'cmd': 'put', 'args': ['--trash-dir', tdir, '--', w.abs(case['fresh'])],
                 'cwd': w.cwd(), 'plan': {'put_clock': '2024-06-30T11:59:59'}}]
            results, trace, err = sched.run_schedule(w, actors, tdir, pol.choose)
            s1 = w.snapshot()
        n += 1
        obs['race_schedules'] = obs.get('race_schedules', 0) + 1
        if err:
            out['verdict'] = 'inconclusive'
            out['why'] = err
            return out
        key = tuple(a for a, _ in trace)
        if key not in seen:
            seen.add(key)
            obs['race_interleavings'] = obs.get('race_interleavings', 0) + 1
        A = putcheck.analyze(s0, s1, [case['fresh']])
        o = A.outcomes[0]
        bad = None
        if results[1].exit != 0 or o['state'] != 'TRASHED':
            bad = 'fresh-entry-not-trashed-whole/%s' % o['state']
        for e in case['entries']:
            st = trashworld.entry_state(s0, s1, e)
            exp = expected_removed(e, now, case['days'])
            if e['trash'] != case['tdir']:
                exp = False          # another trash dir: not operated on
            if (exp and st != 'gone') or (exp is False and st != 'intact'):
                bad = bad or 'entry-%s-though-%s' % (st, 'old' if exp else 'young')
        if bad and len(out['violations']) < 2:
            out['violations'].append({
                'mechanism': 'race-with-put:' + bad,
                'detail': {'trace': ['%d:%s' % t for t in trace][:60],
                           'exits': [r.exit for r in results],
                           'stderr': [r.errtext()[-200:] for r in results]}})
        if pol is ex and not ex.next():
            obs['race_exhaustive_bound1'] = 1
        if out['violations']:
            break
    out['nontrivial'] = True
    out['sample_obs'] = {'schedules': n, 'distinct': len(seen)}
    out['verdict'] = 'violation' if out['violations'] else 'ok'
    return out


def gen_all_users_case(rng, index, tier):
    """--all-users: the trash directories of every account (home trash of
    each passwd entry, $topdir/.Trash/$uid and $topdir/.Trash-$uid of each
    uid) are purged by the same rule; without the option only one's own"""
    L = gen.make_layout(rng, volumes=['v1'], home_own_volume=False, xdg='unset',
                        top_states={'v1': rng.choice(['sticky', 'absent',
                                                      'nonsticky'])},
                        alt_states={}, trash_volumes_env=rng.random() < 0.5,
                        uid=1000)
    now = '2024-06-30T12:00:00'
    users = [['me', 1000, '@/' + L.home], ['alice', 4101, '@/home/alice'],
             ['bob', 4102, rng.choice(['@/home/alice', '@/home/bob'])],
             ['daemon', 2, '@/nonexistent'], ['sys', 3, '@/nonexistent']]
    rng.shuffle(users)
    entries = []
    n = 0
    for name, uid, home in users:
        if home.endswith('nonexistent'):
            continue
        tds = [(home[2:] + '/.local/share/Trash', True, ''),
               ('v1/.Trash-%d' % uid, False, 'v1')]
        if L.top_state.get('v1') in ('sticky', 'nonsticky'):
            # (under a .Trash without the sticky bit nobody's $uid directory
            # may be read or purged)
            tds.append(('v1/.Trash/%d' % uid, False, 'v1'))
        for td, is_home, vol in tds:
            for date in ('2024-01-01T00:00:00', '2024-06-30T11:00:00'):
                if rng.random() < 0.6:
                    loc = (home[2:] if is_home else 'v1') + '/docs/f%d' % n
                    e = trashgen.add_trashed(L, rng, td, 'n%d' % n, loc, date,
                                             rng.choice(['file', 'tree']),
                                             'c%dau%d' % (index, n),
                                             volume_rel=vol, home=is_home)
                    e['owner'] = uid
                    e['insecure'] = td.startswith('v1/.Trash/') and \
                        L.top_state.get('v1') == 'nonsticky'
                    e['dkind'] = 'normal'
                    e['text_date'] = date
                    entries.append(e)
                    n += 1
    case = L.desc()
    case['env'] = dict(case['env'], TRASH_DATE=now)
    case['kind'] = 'all-users'
    case['now'] = now
    case['days'] = rng.choice([None, 1, 30])
    case['all_users'] = rng.random() < 0.7
    case['passwd'] = users
    case['entries'] = entries
    case['trashes'] = sorted(set(e['trash'] for e in entries))
    return case


def run_all_users(case):
    out = {'violations': [], 'obs': {}, 'features': ['all-users' if case['all_users']
                                                     else 'own-only']}
    obs = out['obs']
    now = datetime.datetime.strptime(case['now'], FMT)
    with world.World(case) as w:
        s0 = w.snapshot()
        args = (['--all-users'] if case['all_users'] else []) + \
            ([] if case['days'] is None else [str(case['days'])])
        passwd = [[n, u, world.subst(h, w.R)] for n, u, h in case['passwd']]
        if case['all_users']:
            # what trash-empty --all-users is about to judge is what
            # trash-list --all-users shows
            rl = run.run(w, 'list', ['--all-users'], stdin=b'',
                         plan={'passwd': passwd})
            shown = rl.outtext().split('\n')
            for e in case['entries']:
                full = w.abs(e['loc'])
                seen = any(ln.endswith(' ' + full) for ln in shown)
                if seen == bool(e.get('insecure')):
                    viol(out, 'all-users:list-%s' % (
                        'shows-entry-of-insecure-dir' if seen else 'misses-entry'),
                        rl, e, case)
                else:
                    obs['all_users_entries_listed'] = obs.get('all_users_entries_listed', 0) + 1
        r = run.run(w, 'empty', args, stdin=b'', plan={'passwd': passwd})
        s1 = w.snapshot()
        if r.timeout or r.audit_ok() is False:
            out['verdict'] = 'inconclusive'
            out['why'] = 'watchdog' if r.timeout else 'audit mismatch'
            return out
        obs['all_users_runs' if case['all_users'] else 'own_only_runs'] = 1
        for e in case['entries']:
            st = trashworld.entry_state(s0, s1, e)
            mine = e['owner'] == case['uid']
            selected = (case['all_users'] or mine) and not e.get('insecure')
            exp = selected and expected_removed(e, now, case['days'])
            if exp and st != 'gone':
                viol(out, 'all-users:old-entry-kept/uid-%s' % (
                    'own' if mine else 'other'), r, e, case)
            elif not exp and st != 'intact':
                viol(out, 'all-users:%s-entry-touched/uid-%s' % (
                    'unselected' if not selected else 'young',
                    'own' if mine else 'other'), r, e, case)
            else:
                obs['all_users_entries_judged'] = obs.get('all_users_entries_judged', 0) + 1
        if r.escapes():
            out['violations'].append({'mechanism': 'fence-escape',
                                      'detail': {'esc': r.escapes()[:3]}})
    out['nontrivial'] = True
    out['verdict'] = 'violation' if out['violations'] else 'ok'
    return out


def gen_wall_clock_case(rng, index, tier):
    """no TRASH_DATE: 'now' is the real clock, which has a sub-second part
    while a DeletionDate has none.  An entry trashed DAYS days ago to the
    second IS older than DAYS days as soon as the second has begun."""
    L = gen.make_layout(rng, volumes=[], home_own_volume=False, xdg='unset',
                        top_states={}, alt_states={}, trash_volumes_env=True)
    ht = L.home_trash()
    entries = []
    for nm, off in (('just-old', 0), ('old', -86400), ('young', 3600)):
        e = trashgen.add_trashed(L, rng, ht, nm, L.home + '/docs/' + nm,
                                 '@@DATE:%d@@' % off, rng.choice(['file', 'tree']),
                                 'c%dwc%s' % (index, nm), volume_rel='', home=True)
        e['offset'] = off
        entries.append(e)
    case = L.desc()
    case['env'] = dict((k, v) for k, v in case['env'].items() if k != 'TRASH_DATE')
    case['kind'] = 'wall-clock'
    case['days'] = rng.choice([0, 0, 1, 3, 30])
    case['entries'] = entries
    case['trashes'] = [ht]
    return case


def run_wall_clock(case):
    out = {'violations': [], 'obs': {}, 'features': ['wall-clock']}
    obs = out['obs']
    import time
    with world.World(case) as w:
        # wait for the start of a second, then date the entries and run at once
        t = time.time()
        time.sleep(1.0 - (t - int(t)) + 0.02)
        now0 = datetime.datetime.now().replace(microsecond=0)
        for e in case['entries']:
            ik, pk = trashworld.pair_keys(e)
            d = now0 - datetime.timedelta(days=case['days']) + \
                datetime.timedelta(seconds=e['offset'])
            with open(w.abs(ik)) as f:
                txt = f.read()
            with open(w.abs(ik), 'w') as f:
                f.write(txt.replace('@@DATE:%d@@' % e['offset'], d.strftime(FMT)))
        s0 = w.snapshot()
        r = run.run(w, 'empty', [str(case['days'])], stdin=b'')
        took = (datetime.datetime.now() - now0).total_seconds()
        s1 = w.snapshot()
        if r.timeout or r.audit_ok() is False or took > 600:
            out['verdict'] = 'inconclusive'
            out['why'] = 'watchdog' if r.timeout else 'audit mismatch / slow'
            return out
        obs['wall_clock_runs'] = 1
        for e in case['entries']:
            st = trashworld.entry_state(s0, s1, e)
            # 'young' is an hour away from the limit: kept unless the run took an hour
            exp = 'gone' if e['offset'] <= 0 else 'intact'
            if st != exp:
                out['violations'].append({
                    'mechanism': 'wall-clock:%s-entry-%s' % (
                        'old' if exp == 'gone' else 'young', st),
                    'detail': {'run': r.brief(), 'entry': e, 'days': case['days'],
                               'dated_at': now0.strftime(FMT), 'took_s': took}})
            else:
                obs['wall_clock_entries_judged'] = obs.get('wall_clock_entries_judged', 0) + 1
    out['nontrivial'] = True
    out['replayable'] = False          # (dated at run time)
    out['verdict'] = 'violation' if out['violations'] else 'ok'
    return out


def gen_case(rng, index, tier):
    if index % 150 == 7:
        return gen_race_case(rng, index, tier)
    if index % 120 == 77:
        return gen_wall_clock_case(rng, index, tier)
    if index % 60 == 31:
        return gen_all_users_case(rng, index, tier)
    now = rand_now(rng)
    nodays = rng.random() < 0.12
    days = rng.choice(DAYS)
    tz = trashgen.pick_tz(rng, p_dst=0.15, p_plain=0.05)
    if tz in trashgen.DST_ZONES:
        # the threshold (now - DAYS) falls on a daylight-saving edge of the
        # zone, so that for DAYS >= 1 a switch lies between entry and now
        days = rng.choice([0, 1, 2, 7, 30, 365])
        edge = datetime.datetime.strptime(rng.choice(trashgen.DST_ZONES[tz]), FMT)
        nd = edge + datetime.timedelta(days=days,
                                       seconds=rng.choice([0, 0, 1800, -1800, 3600]))
        now = nd.strftime(FMT)
    nowd = datetime.datetime.strptime(now, FMT)
    n = rng.randint(1, 12)
    specs = []
    dates = []
    for i in range(n):
        r = rng.random()
        kind = 'normal'
        text_date = None
        try:
            thr = nowd - datetime.timedelta(days=days)
        except OverflowError:
            thr = None
        if r < 0.55 and thr is not None:
            delta = rng.choice(DELTAS)
            try:
                d = thr + datetime.timedelta(seconds=delta)
                text_date = '%04d-%02d-%02dT%02d:%02d:%02d' % (
                    d.year, d.month, d.day, d.hour, d.minute, d.second)
                kind = 'boundary'
            except (OverflowError, ValueError):
                text_date = '1970-01-01T00:00:00'
        elif r < 0.63:
            text_date = rng.choice(['1970-01-01T00:00:00', '1000-06-15T12:00:00',
                                    '0001-01-01T00:00:00', '1900-02-28T23:59:59'])
            kind = 'farpast'
        elif r < 0.70:
            text_date = rng.choice(['9999-12-31T23:59:59', '2999-01-01T00:00:00',
                                    '9999-12-20T00:00:00', '9999-12-31T00:00:00',
                                    '9999-01-01T00:00:00'])
            kind = 'future'
        elif r < 0.78:
            kind = 'missing'
        elif r < 0.88:
            text_date = rng.choice(['2020-13-01T00:00:00', '2020-01-01 00:00:00',
                                    '2020-01-01T00:00:00junk', '', 'yesterday',
                                    '2020-02-30T00:00:00', '2020-01-01T24:00:00',
                                    '2020-01-01T00:00', '20200101T000000',
                                    '20010203040506-01-01T00:00:00',
                                    '2001-01-01T00:00:99999999999',
                                    '2147483648-01-01T00:00:00',
                                    '0000-00-00T00:00:00', '2001-01-01T00:00:00.5',
                                    '2001-01-01T00:00:00Z', '2001-01-01T00:00:00+0200',
                                    '2001-01-01T00:00:00+02:00'])
            kind = 'malformed'
        elif r < 0.93:
            kind = 'dup-valid-then-invalid'
            text_date = trashgen.rand_date(rng, 1990, 2100)
        elif r < 0.97:
            kind = 'dup-invalid-then-valid'
            text_date = trashgen.rand_date(rng, 1990, 2100)
        else:
            kind = 'lenient'
            text_date = rng.choice(['2020-1-1T0:0:0', ' 2020-01-01T00:00:00',
                                    '2020-01-01T00:00:00 '])
        specs.append((kind, text_date))
    hostile_perms = rng.random() < 0.08
    kinds = None
    if hostile_perms:
        # payloads that cannot be removed without a chmod (the run is made
        # with the capabilities that let root ignore mode bits dropped)
        kinds = trashgen.PAYLOAD_KINDS + ['tree_locked', 'tree_readonly'] * 3
    L, trashes, entries = trashworld.make(
        rng, index, n_entries=n, dates=['2000-01-01T00:00:00'], tz=tz,
        kinds=kinds)
    mp = trashworld.mount_on_payload(L, rng, entries, p=0.06)
    # rewrite the info files according to specs
    for e, (kind, td) in zip(entries, specs):
        pv = trashgen.path_value(e['loc'], e['volume'], e['home'])
        if kind == 'missing':
            text = '[Trash Info]\nPath=%s\n' % pv
        elif kind == 'dup-valid-then-invalid':
            text = '[Trash Info]\nPath=%s\nDeletionDate=%s\nDeletionDate=garbage\n' % (pv, td)
        elif kind == 'dup-invalid-then-valid':
            text = '[Trash Info]\nPath=%s\nDeletionDate=garbage\nDeletionDate=%s\n' % (pv, td)
        else:
            if rng.random() < 0.15:
                text = '[Trash Info]\nDeletionDate=%s\nPath=%s\n' % (td, pv)
            else:
                text = '[Trash Info]\nPath=%s\nDeletionDate=%s\n' % (pv, td)
        if kind in ('boundary', 'farpast', 'future', 'normal') and rng.random() < 0.08:
            # written on / copied through a system whose lines end in CR LF:
            # the same entry, the same date
            text = text.replace('\n', '\r\n')
            e['crlf'] = True
        e['dkind'] = kind
        e['text_date'] = td
        ik = trashworld.pair_keys(e)[0]
        for nd in L.nodes:
            if nd['p'] == ik:
                nd['c'] = text
    for e in entries[len(specs):]:
        # entries the world builder added on its own (sibling links)
        e['dkind'] = 'normal'
        e['text_date'] = e['date']
    # orphans and junk
    extras = []
    if rng.random() < 0.5:
        t = rng.choice(trashes)
        L.add({'p': t['rel'] + '/files/orphan-%d' % index, 't': 'f',
               'c': 'orphan %d' % index})
        extras.append('orphan')
    if rng.random() < 0.3:
        t = rng.choice(trashes)
        L.add({'p': t['rel'] + '/info/not-an-info.txt', 't': 'f', 'c': 'junk'})
        extras.append('junk-in-info')
    if rng.random() < 0.3:
        t = rng.choice(trashes)
        L.add({'p': t['rel'] + '/info/lonely-%d.trashinfo' % index, 't': 'f',
               'c': '[Trash Info]\nPath=gone\nDeletionDate=1999-01-01T00:00:00\n'})
        extras.append('info-without-payload')
    case = L.desc()
    case['env'] = dict(case['env'], TRASH_DATE=now)
    case['now'] = now
    case['days'] = None if nodays else days
    case['entries'] = entries
    case['trashes'] = [t['rel'] for t in trashes]
    case['extras'] = extras
    case['tz'] = tz
    if hostile_perms:
        case['drop_caps'] = True
    case['verbose'] = rng.random() < 0.2
    return case


def expected_removed(e, now, days):
    """True / False / None (not judged)"""
    k = e['dkind']
    if days is None:
        return True
    if k == 'lenient':
        return None
    if k in ('missing', 'malformed', 'dup-invalid-then-valid'):
        return False
    d = spec.parse_date(e['text_date'])
    if d is None:
        return False
    try:
        return spec.older_than(days, now, d)
    except OverflowError:
        return False


def run_case(case):
    if case.get('kind') == 'race':
        return run_race(case)
    if case.get('kind') == 'all-users':
        return run_all_users(case)
    if case.get('kind') == 'wall-clock':
        return run_wall_clock(case)
    out = {'violations': [], 'obs': {}, 'features': []}
    obs = out['obs']
    now = datetime.datetime.strptime(case['now'], FMT)
    days = case['days']
    with world.World(case) as w:
        s0 = w.snapshot()
        args = []
        if case['verbose']:
            args.append('-v')
        if days is not None:
            args.append(str(days))
        r = run.run(w, 'empty', args, stdin=b'')
        s1 = w.snapshot()
        if r.timeout or r.audit_ok() is False:
            out['verdict'] = 'inconclusive'
            out['why'] = 'watchdog' if r.timeout else 'audit mismatch'
            return out
        out['features'].append('days:%s' % days)
        out['features'].append('tz:%s' % (case.get('tz') or 'default'))
        if case.get('tz') in trashgen.DST_ZONES:
            obs['dst_zone_runs'] = obs.get('dst_zone_runs', 0) + 1
        overflow = False
        if days is not None:
            try:
                now - datetime.timedelta(days=days)
            except OverflowError:
                overflow = True
        near = False
        for e in case['entries']:
            st = trashworld.entry_state(s0, s1, e)
            exp = expected_removed(e, now, days)
            out['features'].append('d:' + e['dkind'])
            if e['dkind'] == 'boundary':
                obs['boundary_entries'] = obs.get('boundary_entries', 0) + 1
                near = True
            if trashworld.unremovable(e, case) \
                    and exp is not False and st != 'gone':
                # the payload cannot be removed (permissions): what is left of
                # it must keep its .trashinfo (still listed, still restorable)
                # and the failure must be reported
                obs['unremovable_payloads'] = obs.get('unremovable_payloads', 0) + 1
                ik, pk = trashworld.pair_keys(e)
                if ik not in s1 or s1[ik] != s0[ik]:
                    viol(out, 'unremovable-payload-lost-its-info/%s' % e['kind'], r, e, case)
                elif exp is True and 'cannot remove' not in r.errtext():
                    viol(out, 'unremovable-payload-not-reported/%s' % e['kind'], r, e, case)
                continue
            if exp is None:
                obs['not_judged'] = obs.get('not_judged', 0) + 1
                if st not in ('intact', 'gone'):
                    viol(out, 'entry-half-removed/%s' % st, r, e, case)
                continue
            if overflow:
                exp = False
            if exp and st == 'gone':
                obs['removed'] = obs.get('removed', 0) + 1
            elif not exp and st == 'intact':
                obs['kept'] = obs.get('kept', 0) + 1
                if e['dkind'] in ('missing', 'malformed', 'dup-invalid-then-valid'):
                    obs['undated_kept'] = obs.get('undated_kept', 0) + 1
            elif exp and st == 'intact':
                viol(out, 'old-entry-kept/%s' % e['dkind'], r, e, case)
            elif not exp and st == 'gone':
                viol(out, 'young-or-undated-entry-purged/%s' % e['dkind'], r, e, case)
            else:
                viol(out, 'entry-half-removed/%s/%s' % (st, e['dkind']), r, e, case)
        if days is None:
            obs['no_days_runs'] = 1
            # nothing may remain: no info, no payload
            unrem = set()
            for e in case['entries']:
                if trashworld.unremovable(e, case):
                    unrem.update(trashworld.pair_keys(e))
            left = [k for k in s1 if (putcheck.is_payload_root(k) or
                                      putcheck.is_info(k)) and
                    any(k.startswith(t + '/') for t in case['trashes'])
                    and k not in unrem]
            if left:
                out['violations'].append({
                    'mechanism': 'empty-without-days-left-something',
                    'detail': {'left': left[:6], 'run': r.brief()}})
        # nothing outside files/ and info/ may change
        ci = trashworld.created_inside(s0, s1, case['trashes'])
        if ci:
            out['violations'].append({'mechanism': 'purge-created-something-in-trash',
                                      'detail': {'created': ci[:6], 'run': r.brief()}})
        od = trashworld.outside_trash_diff(s0, s1, case['trashes'])
        if od:
            out['violations'].append({'mechanism': 'changed-outside-trash',
                                      'detail': {'diff': od[:6], 'run': r.brief()}})
        if r.escapes():
            out['violations'].append({'mechanism': 'fence-escape',
                                      'detail': {'esc': r.escapes()[:3]}})
        if 'Traceback' in r.errtext():
            obs['traceback'] = 1
            if not overflow:
                out['violations'].append({
                    'mechanism': 'traceback',
                    'detail': {'run': r.brief()}})
        out['nontrivial'] = near
        if any(e.get('mountpoint') for e in case['entries']):
            obs['payload_is_a_mount_point'] = 1
            out['replayable'] = False    # (a real mount would hide the content)
        out['sample_obs'] = {'exit': r.exit, 'args': args,
                             'states': [trashworld.entry_state(s0, s1, e)
                                        for e in case['entries']]}
    out['verdict'] = 'violation' if out['violations'] else 'ok'
    return out


def viol(out, mech, r, e, case):
    out['violations'].append({
        'mechanism': mech,
        'detail': {'run': r.brief(), 'entry': e, 'now': case['now'],
                   'days': case['days']}})
