"""C05 - killing trash-put at any instant loses nothing and leaves no orphan
payload: crash-point enumeration (+ SIGKILL sampling in the thorough tier)."""
import os

from .. import gen, inject, putcheck, run, snap, spec, trashio, world
from . import c01

ID = 'C05'
KINDS = ['file', 'empty', 'tree', 'link_dangling', 'link_dir', 'dir_empty']


def config(tier):
    return {
        'level': 'fault_enumeration',
        'cases': 280 if tier == 'quick' else 2500,
        'budget_s': 55 if tier == 'quick' else 570,
        'floors': {'cases': 30, 'crash_states': 1000, 'interrupt_states': 800,
                   'crash_states_after_first_mutation': 800,
                   'payloads_checked_for_info': 300,
                   'scenarios_exhaustive': 30},
        'exhaustive': False,
        'rule': 'case = scenario (entry kind x first use / existing trash dir / '
                'name collision x home, .Trash/$uid, .Trash-$uid x home-fallback '
                'cross-volume copy x 1-3 arguments); for EVERY mutating '
                'file-system event k of the reference run (and the end) an '
                'identical fresh world is run with _exit before event k and '
                'the on-disk state judged, and once more with KeyboardInterrupt '
                '(SIGINT as Python delivers it) raised when event k returns, '
                'so that the program\'s own clean-up handlers run; thorough adds real SIGKILLs at '
                'random instants; non-trivial = crash point at or after the '
                'first mutating event; distinct = (scenario, k)',
        'assumptions': ['crash points are Python-level call boundaries = '
                        'system-call boundaries (no fsync semantics)',
                        'determinism of the run checked by event-prefix equality'],
    }


def gen_case(rng, index, tier):
    where = rng.choice(['home', 'home', 'top', 'alt', 'fallback', 'fallback'])
    vols = [] if where == 'home' and rng.random() < 0.5 else ['v1']
    top = {'v1': 'sticky'} if where == 'top' else \
        {'v1': 'file'} if where == 'fallback' else {}
    alt = {'v1': 'file'} if where == 'fallback' else {}
    L = gen.make_layout(rng, volumes=vols, home_own_volume=False, xdg='unset',
                        top_states=top, alt_states=alt, trash_volumes_env=False)
    workdirs = c01.setup_workdirs(L, rng, cwd_vol='')
    n = rng.choice([1, 1, 1, 2, 3])
    args = []
    used = set()
    vol = '' if where == 'home' else 'v1'
    for a in range(n):
        arg = c01.add_entry(L, rng, workdirs, a, 'c%da%d' % (index, a), used,
                            kinds=KINDS, spellings=['rel', 'abs'], vol=vol,
                            name_kw={'allow_bad_utf8': False})
        if arg['spelling'].startswith('-'):
            arg['spelling'] = './' + arg['spelling']
        args.append(arg)
    state = rng.choice(['first-use', 'existing', 'collision', 'collision-orphan',
                        'collision-orphan-dir', 'collision-stale-info',
                        'collision-dangling-pair'])
    # the trash dir that will be used
    if where in ('home', 'fallback'):
        tdir = L.home_trash()
    elif where == 'top':
        tdir = 'v1/.Trash/%d' % L.uid
    else:
        tdir = 'v1/.Trash-%d' % L.uid
    if state != 'first-use':
        L.add(world.ensure_trash_dirs(tdir))
    if state.startswith('collision'):
        for a in args:
            nm = os.path.basename(a['rel'])
            if len(nm.encode('utf-8', 'surrogateescape')) > 200:
                continue
            if state == 'collision':
                L.add(world.trash_nodes(
                    tdir, nm, world.trashinfo_text('old/' + spec.pct_encode(nm.encode()),
                                                   '2001-01-01T00:00:00'),
                    [{'p': '', 't': 'f', 'c': 'old payload'}]))
            elif state == 'collision-orphan':
                L.add({'p': tdir + '/files/' + nm, 't': 'f', 'c': 'old orphan'})
            elif state == 'collision-orphan-dir':
                L.add({'p': tdir + '/files/' + nm, 't': 'd', 'm': 0o755})
                L.add({'p': tdir + '/files/' + nm + '/inner', 't': 'f',
                       'c': 'inner of old orphan dir'})
            elif state == 'collision-dangling-pair':
                L.add({'p': tdir + '/info/' + nm + '.trashinfo', 't': 'f',
                       'c': world.trashinfo_text('old/dangling', '2001-01-01T00:00:00')})
                L.add({'p': tdir + '/files/' + nm, 't': 'l', 'to': 'nowhere'})
            else:
                L.add({'p': tdir + '/info/' + nm + '.trashinfo', 't': 'f',
                       'c': world.trashinfo_text('stale/x', '2001-01-01T00:00:00')})
    opts = []
    env = {}
    if where == 'fallback':
        opts.append('--home-fallback')
        env['TRASH_ENABLE_HOME_FALLBACK'] = '1'
    case = L.desc()
    case['env'] = dict(case['env'], **env)
    case['args'] = args
    case['opts'] = opts
    case['where'] = where
    case['state'] = state
    case['kills'] = 0 if tier == 'quick' else rng.choice([0, 0, 3])
    case['seed'] = rng.getrandbits(30)
    return case


def same_entry(a, b, case):
    if a == b:
        return True
    if case['where'] != 'fallback' or set(a) != set(b):
        return False
    # cross-device copy: shutil.move recreates symlinks without their mtime
    # (the C01 known finding); everything else must be equal
    for k in a:
        x, y = a[k], b[k]
        if x == y:
            continue
        if x[0] == 'l' and y[0] == 'l' and x[:6] == y[:6]:
            continue
        return False
    return True


def judge_state(case, w, s0, s1, des, label, out, r):
    """the C05 oracle on one crash state"""
    obs = out['obs']
    n0 = putcheck.norm_sig(s0)
    n1 = putcheck.norm_sig(s1)
    roots1 = [k for k in n1 if putcheck.is_payload_root(k)]
    bad = []
    for a, P in zip(case['args'], des):
        sig0 = snap.subtree(n0, P)
        at_orig = snap.subtree(n1, P) == sig0
        in_trash = [q for q in roots1 if q not in n0 and
                    same_entry(snap.subtree(n1, q), sig0, case)]
        if not at_orig and not in_trash:
            bad.append(('entry-complete-nowhere', P))
    # every payload under files/ (except pre-existing ORPHANS) has a good info
    for q in roots1:
        if q in n0:
            # an old payload that had its info must still have it
            ik0 = putcheck.info_for_payload(q)
            if ik0 in n0 and ik0 not in n1:
                bad.append(('old-payload-lost-its-info', q))
            continue
        obs['payloads_checked_for_info'] = obs.get('payloads_checked_for_info', 0) + 1
        ik = putcheck.info_for_payload(q)
        if ik not in n1:
            bad.append(('payload-without-info', q))
            continue
        data = trashio.read_info(w.abs(ik))
        m = spec.INFO_GRAMMAR.match(data)
        if not m:
            bad.append(('payload-with-incomplete-info', q))
            continue
        tdir = w.abs(putcheck.trash_of(q))
        vol = spec.volume_of(os.path.realpath(tdir), w.mounts)
        loc, pi = trashio.info_location(data, tdir, vol, None)
        wants = [spec.real_entry(w.abs(P)) for P in des]
        if loc not in wants or pi['date'] is None:
            bad.append(('payload-info-wrong-path-or-date', q))
    for kind, what in bad:
        out['violations'].append({
            'mechanism': '%s/%s/%s' % (kind, case['where'], case['state']),
            'detail': {'crash': label, 'what': what, 'where': case['where'],
                       'state': case['state'], 'run': r.brief(),
                       'args': [a['rel'] for a in case['args']],
                       'crash_event': r.crash}})
    return not bad


def run_case(case):
    out = {'violations': [], 'obs': {}, 'features': []}
    obs = out['obs']
    argv = list(case['opts']) + ['--'] + [a['spelling'] for a in case['args']]
    sc = inject.Scenario(case, 'put', argv, stdin=b'',
                         plan={'put_clock': '2022-02-02T02:02:02',
                               # (every third scenario: the clock moves on
                               # by a second between two readings)
                               'put_clock_tick': 1 if case['seed'] % 3 == 0 else 0,
                               'random_seed': case['seed']})
    out['features'] += ['where:' + case['where'], 'state:' + case['state'],
                        'nargs:%d' % len(case['args'])] + \
        ['kind:' + a['kind'] for a in case['args']]
    w, ref, s0, s1 = sc.execute()
    try:
        if ref.timeout or ref.audit_ok() is False:
            out['verdict'] = 'inconclusive'
            out['why'] = 'reference run: watchdog or audit mismatch'
            return out
        des = [a['rel'] for a in case['args']]
        refn = inject.norm_events(ref.events, w.R)
        ks = inject.mut_positions(ref.events)
        A = putcheck.analyze(s0, s1, des)
        obs['ref_trashed'] = sum(1 for o in A.outcomes if o['state'] == 'TRASHED')
        # the complete run is a (trivial) crash point too
        judge_state(case, w, s0, s1, des, 'end', out, ref)
    finally:
        w.destroy()
    if not ks:
        out['nontrivial'] = False
        out['verdict'] = 'violation' if out['violations'] else 'ok'
        return out
    first_mut = ks[0]
    seen_keys = set()
    for k in ks:
        wk, rk, a0, a1 = sc.execute({'crash_before': k})
        try:
            if rk.timeout:
                out['verdict'] = 'inconclusive'
                out['why'] = 'watchdog at crash point %d' % k
                return out
            if rk.exit != 99 or not rk.crash:
                out['verdict'] = 'inconclusive'
                out['why'] = 'crash point %d not reached (exit %s)' % (k, rk.exit)
                return out
            pre = inject.norm_events(rk.events, wk.R)
            if pre != refn[:len(pre)]:
                out['verdict'] = 'inconclusive'
                out['why'] = 'non-deterministic prefix at crash point %d' % k
                return out
            obs['crash_states'] = obs.get('crash_states', 0) + 1
            if k >= first_mut:
                obs['crash_states_after_first_mutation'] = \
                    obs.get('crash_states_after_first_mutation', 0) + 1
            judge_state(case, wk, a0, a1, des, 'before event %d' % k, out, rk)
            ev = rk.crash
            obs['crash_before_' + ev['op']] = obs.get('crash_before_' + ev['op'], 0) + 1
        finally:
            wk.destroy()
        if len(out['violations']) > 3:
            break
        # ---- the catchable kill: SIGINT (Ctrl-C) arriving during system
        # call k is seen by Python as KeyboardInterrupt when the call returns;
        # whatever clean-up handlers then run must leave a legal state too
        wk, rk, a0, a1 = sc.execute({'interrupt_after': k})
        try:
            if rk.timeout:
                out['verdict'] = 'inconclusive'
                out['why'] = 'watchdog after interrupt at %d' % k
                return out
            why = (rk.crash or {}).get('why')
            if why == 'interrupt-skipped':
                obs['interrupt_on_failing_call_skipped'] = \
                    obs.get('interrupt_on_failing_call_skipped', 0) + 1
            elif why != 'interrupt-after':
                out['verdict'] = 'inconclusive'
                out['why'] = 'interrupt point %d not reached (exit %s)' % (k, rk.exit)
                return out
            else:
                obs['interrupt_states'] = obs.get('interrupt_states', 0) + 1
            judge_state(case, wk, a0, a1, des, 'KeyboardInterrupt after event %d' % k,
                        out, rk)
        finally:
            wk.destroy()
        if len(out['violations']) > 3:
            break
    obs['scenarios_exhaustive'] = 1
    # ---- real SIGKILL at random instants (thorough)
    import random
    rng = random.Random(case['seed'])
    landed = 0
    for _ in range(case.get('kills', 0)):
        delay_us = rng.choice([500, 1000, 2000])
        span = len(ks) * delay_us / 1e6
        wk, rk, a0, a1, killed = inject.sigkill_run(sc, delay_us,
                                                    rng.random() * span, rng)
        try:
            obs['sigkills'] = obs.get('sigkills', 0) + 1
            if rk.signal == 9:
                landed += 1
                obs['sigkills_landed_mid_run'] = obs.get('sigkills_landed_mid_run', 0) + 1
            judge_state(case, wk, a0, a1, des, 'SIGKILL', out, rk)
        finally:
            wk.destroy()
    out['nontrivial'] = True
    out['key'] = None
    out['sample_obs'] = {'mutating_events': len(ks), 'where': case['where'],
                         'state': case['state']}
    out['verdict'] = 'violation' if out['violations'] else 'ok'
    # distinct non-trivial = (scenario, k): report through obs, key = scenario
    obs['distinct_crash_points'] = len(ks)
    del out['key']
    return out


def extra_evidence(results):
    n = sum((r.get('obs') or {}).get('distinct_crash_points', 0) for r in results)
    ex = sum((r.get('obs') or {}).get('scenarios_exhaustive', 0) for r in results)
    return {'crash_points_enumerated': n,
            'scenarios_enumerated_exhaustively': ex,
            'exhaustive_per_scenario': True,
            'distinct_nontrivial_note': 'distinct_nontrivial counts scenarios; '
            'crash_points_enumerated counts (scenario, k) pairs'}
