"""C03 - every .trashinfo is spec-conformant and decodes back to the exact
path and time: contracts on the real functions + end-to-end byte checks."""
import datetime
import os

from .. import contracts, gen, putcheck, run, snap, spec, trashio, world
from . import c01

ID = 'C03'
ALLC = ['format_trashinfo', 'for_file', 'parse_path', 'parse_deletion_date']


def config(tier):
    return {
        'level': 'exploration',
        'cold_sample': 8 if tier == 'quick' else 30,
        'cases': 2400 if tier == 'quick' else 50000,
        'budget_s': 50 if tier == 'quick' else 560,
        'floors': {'cases': 200, 'c_format_trashinfo': 30000,
                   'c_parse_path': 20000, 'c_for_file': 150,
                   'e2e_infos_checked': 150, 'e2e_readers_agree': 100,
                   'needs_escape': 5000},
        'rule': 'two kinds of case: (direct) a batch of generated '
                '(location, datetime) pairs - any byte 1-255 except "/" in '
                'components, depth <= 12, components <= 255 bytes, dates '
                '1970..9999 incl. edge values - fed to the real '
                'format_trashinfo / parse_path / parse_deletion_date with '
                'contracts bound; (e2e) a hostile-named entry trashed through '
                'the CLI into each kind of trash dir, raw info bytes checked '
                'and read back through trash-list/restore/rm; non-trivial = '
                'location has a byte that must be escaped',
        'assumptions': ['vf/spec.py percent coding and grammar',
                        'icontract binder reaches every reference (counted)'],
    }


def setup(tier):
    run.prepare()
    contracts.bind(ALLC)


# ------------------------------------------------------------ direct part
def rand_component(rng):
    r = rng.random()
    if r < 0.25:
        return gen.hostile_name(rng, maxbytes=40)
    if r < 0.5:
        n = rng.randint(1, 12)
        return gen._rand_bytes_name(rng, n)
    if r < 0.58:
        return gen.hostile_name(rng, 'long')
    if r < 0.7:
        return rng.choice(['%', '%41', '%2F', '%%', '+', ' ', '\n', '\r\n',
                           '=', '[Trash Info]', 'Path=', 'DeletionDate=',
                           '#', '?', '&', '~', '.', '..x', '-', '%u00e9',
                           '\\', '%0A'])
    return ''.join(rng.choice('abcXYZ019_-.') for _ in range(rng.randint(1, 9)))


def rand_location(rng):
    depth = rng.randint(1, 12)
    comps = [rand_component(rng) for _ in range(depth)]
    comps = [c if c not in ('', '.', '..') else c + 'x' for c in comps]
    absolute = rng.random() < 0.6
    return ('/' if absolute else '') + '/'.join(comps)


EDGE_DATES = [(1970, 1, 1, 0, 0, 0), (9999, 12, 31, 23, 59, 59),
              (2000, 2, 29, 12, 0, 0), (2024, 2, 29, 23, 59, 59),
              (2021, 3, 28, 2, 30, 0), (2021, 10, 31, 2, 30, 0),
              (1999, 12, 31, 23, 59, 59), (2038, 1, 19, 3, 14, 8),
              (2001, 9, 9, 1, 46, 40), (1970, 1, 1, 0, 0, 1)]


def rand_datetime(rng):
    if rng.random() < 0.2:
        return datetime.datetime(*rng.choice(EDGE_DATES))
    lo = datetime.datetime(1970, 1, 1).toordinal()
    hi = datetime.datetime(9999, 12, 31).toordinal()
    d = datetime.date.fromordinal(rng.randint(lo, hi))
    return datetime.datetime(d.year, d.month, d.day, rng.randint(0, 23),
                             rng.randint(0, 59), rng.randint(0, 59),
                             rng.choice([0, 0, rng.randint(0, 999999)]))


def gen_case(rng, index, tier):
    if index % 150 == 7:
        return gen_slow_case(rng, index, tier)
    if index % 3 == 0:
        return {'kind': 'direct', 'n': 400 if tier == 'quick' else 800,
                'seed': rng.getrandbits(48)}
    # ---- e2e
    L = gen.make_layout(rng, top_states=None, alt_states=None)
    workdirs = c01.setup_workdirs(L, rng)
    tag = 'c%d' % index
    kinds = ['file', 'tree', 'empty', 'link_dangling', 'dir_empty']
    # hostile directory names above the entry too
    v = rng.choice(L.mounts)
    d = workdirs[v]
    for _ in range(rng.randint(0, 3)):
        d = d + '/' + gen.hostile_name(rng, maxbytes=30)
    L.add({'p': d, 't': 'd', 'm': 0o755})
    workdirs = dict(workdirs)
    workdirs[v] = d
    arg = c01.add_entry(L, rng, workdirs, 0, tag, set(), kinds=kinds,
                        spellings=['rel', 'abs', 'dotslash', 'via_link_parent', 'via_link_ancestor'],
                        vol=v)
    if arg['spelling'].startswith('-'):
        arg['spelling'] = './' + arg['spelling']
    opts, stdin, env_extra, optclass = c01.pick_options(
        L, rng, workdirs, [arg], index, allowed=['none', '--trash-dir', '-v'])
    c01.add_stale(L, rng, [arg], index, p=0.25)
    c01.add_partial_trash_dirs(L, rng)
    case = L.desc()
    case['kind'] = 'e2e'
    case['args'] = [arg]
    case['opts'] = opts
    case['optclass'] = optclass
    if rng.random() < 0.5:
        dt = rand_datetime(rng)
        case['put_clock'] = '%04d-%02d-%02dT%02d:%02d:%02d' % (
            dt.year, dt.month, dt.day, dt.hour, dt.minute, dt.second)
    elif rng.random() < 0.6:
        # the real clock in a time zone far from the harness's: DeletionDate
        # is LOCAL time
        case['tz'] = rng.choice(['Asia/Kolkata', 'Pacific/Kiritimati',
                                 'Etc/GMT+12', 'Europe/Rome',
                                 'EST5EDT,M3.2.0,M11.1.0', 'Australia/Lord_Howe'])
        case['env'] = dict(case['env'], TZ=case['tz'])
    if not case.get('put_clock') and rng.random() < 0.4:
        # the "now" of trash-empty exported by a wrapper script: it is no
        # business of trash-put, whose DeletionDate is the time of trashing
        case['env'] = dict(case['env'], TRASH_DATE=rng.choice(
            ['2001-01-01T00:00:00', '2999-12-31T23:59:59', '1970-01-01T00:00:00']))
    return case


def local_now(tz):
    """the wall-clock reading of 'now' in zone tz (None: the harness's)"""
    import time
    if not tz:
        return datetime.datetime.now().replace(microsecond=0)
    old = os.environ.get('TZ')
    os.environ['TZ'] = tz
    time.tzset()
    try:
        return datetime.datetime(*time.localtime(time.time())[:6])
    finally:
        if old is None:
            del os.environ['TZ']
        else:
            os.environ['TZ'] = old
        time.tzset()


def gen_slow_case(rng, index, tier):
    """two arguments trashed by ONE slow process (every mutating operation
    is delayed): each DeletionDate is the time at which THAT entry was
    trashed, not the time the command started"""
    L = gen.make_layout(rng, volumes=[], home_own_volume=False, xdg='unset',
                        trash_volumes_env=False)
    workdirs = c01.setup_workdirs(L, rng)
    used = set()
    args = [c01.add_entry(L, rng, workdirs, i, 'c%ds%d' % (index, i), used,
                          kinds=['file', 'empty'], spellings=['rel', 'abs'],
                          deep=False, name='slow%d-%d' % (index, i))
            for i in range(2)]
    case = L.desc()
    case['kind'] = 'slow2'
    case['args'] = args
    return case


def run_slow(case):
    import time
    out = {'violations': [], 'obs': {}, 'features': ['slow2']}
    obs = out['obs']
    with world.World(case) as w:
        s0 = w.snapshot()
        argv = ['--'] + [world.subst(a['spelling'], w.R) for a in case['args']]
        t_start = time.time()
        r = run.run(w, 'put', argv, stdin=b'',
                    plan={'delay_us': 450000, 'timestamps': True}, watchdog=60)
        s1 = w.snapshot()
        if r.timeout or r.audit_ok() is False:
            out['verdict'] = 'inconclusive'
            out['why'] = 'watchdog' if r.timeout else 'audit mismatch'
            return out
        A = putcheck.analyze(s0, s1, [a['rel'] for a in case['args']])
        if any(o['state'] != 'TRASHED' for o in A.outcomes):
            out['verdict'] = 'inconclusive'
            out['why'] = 'slow run did not trash both arguments'
            return out
        renames = [e for e in r.events if e['op'] == 'rename' and e.get('r') == 'ok'
                   and 't' in e]
        dates = []
        for o in A.outcomes:
            m = spec.INFO_GRAMMAR.match(trashio.read_info(w.abs(o['info'])))
            dates.append(spec.parse_date(m.group(2).decode('ascii')) if m else None)
        if len(renames) < 2 or None in dates:
            out['verdict'] = 'inconclusive'
            out['why'] = 'no timestamps / unreadable info'
            return out
        obs['slow_two_argument_runs'] = 1
        t1 = datetime.datetime.fromtimestamp(int(renames[0]['t']))
        # the second entry was still in place when the first had been delivered
        if dates[1] < t1:
            out['violations'].append({
                'mechanism': 'date-of-a-later-argument-predates-its-trashing',
                'detail': {'first_delivered_at': str(t1), 'dates': [str(d) for d in dates],
                           'run': r.brief()}})
        if dates[0] < datetime.datetime.fromtimestamp(int(t_start)) or \
                dates[1] > datetime.datetime.fromtimestamp(int(renames[1]['t']) + 1):
            out['violations'].append({
                'mechanism': 'date-outside-run-bracket',
                'detail': {'dates': [str(d) for d in dates]}})
    out['nontrivial'] = True
    out['sample_obs'] = {'dates': [str(d) for d in dates]}
    out['verdict'] = 'violation' if out['violations'] else 'ok'
    return out


def run_direct(case):
    import random
    rng = random.Random(case['seed'])
    from trashcli.put.format_trash_info import format_trashinfo
    from trashcli.parse_trashinfo.parse_path import parse_path
    from trashcli.parse_trashinfo.parse_deletion_date import parse_deletion_date
    out = {'violations': [], 'obs': {}, 'features': ['direct']}
    obs = out['obs']
    contracts.SINK.reset()
    nesc = 0
    raised = 0
    sample = None
    for i in range(case['n']):
        loc = rand_location(rng)
        dt = rand_datetime(rng)
        try:
            res = format_trashinfo(loc, dt)
            if sample is None:
                sample = [loc[:80], str(dt), res[:160].decode('ascii', 'replace')]
        except UnicodeEncodeError:
            raised += 1
            continue
        raw = loc.encode('utf-8', 'surrogateescape')
        if any(c not in spec.UNRESERVED and c != 0x2f for c in raw):
            nesc += 1
        # readers on foreign-looking texts derived from this one
        text = res.decode('utf-8')
        v = rng.random()
        if v < 0.3:
            text = text.replace('\n', '\r\n') if rng.random() < 0.3 else \
                'X-Key=1\n' + text + '[Other]\nPath=zzz\nDeletionDate=1999-01-01T00:00:00\n'
        parse_path(text)
        parse_deletion_date(text)
        if rng.random() < 0.5:
            # a foreign implementation may leave more characters unescaped
            # (RFC 2396 marks, sub-delims such as '+', raw UTF-8)
            keep = set(b"!*'()+,;=:@&$ ")
            fv = ''.join(chr(c) if (c in spec.UNRESERVED or c == 0x2f or
                                    (c in keep and rng.random() < 0.7))
                         else '%%%02X' % c for c in raw)
            if rng.random() < 0.2:
                fv = loc.replace('%', '%25').replace('\n', '%0A').replace('\r', '%0D')
            parse_path('[Trash Info]\nPath=%s\nDeletionDate=%s\n' % (
                fv, '2001-02-03T04:05:06'))
    # ---- the location recorded for entries in odd places of a volume, on a
    # real directory tree: parents whose path repeats the volume's own
    # absolute path (mirrors made by rsync -R / cp --parents), parents equal
    # to the top, names equal to components of the top
    try:
        from trashcli.put.original_location import OriginalLocation
        from trashcli.put.fs.real_fs import RealFs
        from trashcli.put.core.path_maker_type import PathMakerType
        import tempfile
        import shutil
        base = tempfile.mkdtemp(prefix='vfc03.', dir=world.SCRATCH_PARENT)
        try:
            top = os.path.join(base, 'media', 'usb')
            mirror = os.path.join(top, 'backup') + top          # top repeated inside itself
            places = [top, os.path.join(top, 'docs'), mirror, os.path.join(mirror, 'docs'),
                      os.path.join(top, 'usb'), os.path.join(top, 'media', 'usb', 'x')]
            for d in places:
                os.makedirs(d, exist_ok=True)
            ol = OriginalLocation(RealFs())
            for d in places:
                for nm in ('report.txt', 'usb', 'a b'):
                    pth = os.path.join(d, nm)
                    open(pth, 'w').close() if not os.path.lexists(pth) else None
                    for pm in (PathMakerType.RelativePaths, PathMakerType.AbsolutePaths):
                        ol.for_file(pth, pm, top)
                        out['obs']['locations_in_odd_places'] = \
                            out['obs'].get('locations_in_odd_places', 0) + 1
        finally:
            shutil.rmtree(base, ignore_errors=True)
    except ImportError:
        pass
    for k, n in contracts.SINK.counts.items():
        obs['c_' + k] = n
    obs['needs_escape'] = nesc
    obs['not_utf8_refused'] = raised
    for f in contracts.SINK.fails:
        out['violations'].append({'mechanism': 'contract:' + f['contract'],
                                  'detail': f})
    out['nontrivial'] = nesc > 0
    out['replayable'] = False        # no command is run: nothing to replay
    out['key'] = 'direct-%d' % case['seed']
    out['sample_obs'] = {'first': sample, 'evaluated': dict(contracts.SINK.counts)}
    out['verdict'] = 'violation' if out['violations'] else 'ok'
    return out


def index_of(case):
    return int(case.get('index') or 0)


def run_case(case):
    if case['kind'] == 'direct':
        return run_direct(case)
    if case['kind'] == 'slow2':
        return run_slow(case)
    out = {'violations': [], 'obs': {}, 'features': ['e2e']}
    obs = out['obs']
    a = case['args'][0]
    with world.World(case) as w:
        ent_abs = w.abs(a['rel'])
        want_loc = spec.real_entry(ent_abs)
        s0 = w.snapshot()
        plan = {}
        if case.get('put_clock'):
            plan['put_clock'] = case['put_clock']
        argv = [world.subst(o, w.R) for o in case['opts']] + \
            ['--', world.subst(a['spelling'], w.R)]
        t_before = local_now(case.get('tz'))
        r = run.run(w, 'put', argv, stdin=b'', plan=plan, contracts=ALLC)
        t_after = local_now(case.get('tz'))
        if case.get('tz'):
            obs['wall_clock_in_other_zone'] = 1
        s1 = w.snapshot()
        if r.timeout or r.audit_ok() is False:
            out['verdict'] = 'inconclusive'
            out['why'] = 'watchdog' if r.timeout else 'audit mismatch'
            return out
        for k, n in r.ccounts.items():
            obs['c_' + k] = obs.get('c_' + k, 0) + n

        def viol(mech, **kw):
            d = {'run': r.brief(), 'want_location': want_loc}
            d.update(kw)
            out['violations'].append({'mechanism': mech, 'detail': d})

        for c in r.contracts:
            viol('contract:' + c['contract'], contract=c)
        A = putcheck.analyze(s0, s1, [a['rel']])
        o = A.outcomes[0]
        valid = gen.is_valid_utf8(want_loc)
        out['features'] += ['opt:' + case['optclass'],
                            'clock:' + ('virtual' if case.get('put_clock') else 'wall')]
        if o['state'] != 'TRASHED':
            obs['not_trashed'] = 1
            if not valid:
                obs['refused_not_utf8'] = 1
            out['nontrivial'] = False
            out['verdict'] = 'violation' if out['violations'] else 'ok'
            return out
        tdir = w.abs(o['trash'])
        info = trashio.read_info(w.abs(o['info']))
        obs['e2e_infos_checked'] = 1
        m = spec.INFO_GRAMMAR.match(info)
        if not m:
            viol('info-grammar', info=repr(info)[:300])
            out['verdict'] = 'violation'
            return out
        val = m.group(1).decode('ascii', 'replace')
        if not spec.escaped_ok(val):
            viol('info-unescaped-char', value=val[:200])
        vol, tdir_given = c01.trash_dir_base(case, w, tdir)
        ht = spec.home_trash(w.env())
        is_home = ht is not None and \
            os.path.realpath(ht) == os.path.realpath(tdir)
        dec = spec.pct_decode(val).decode('utf-8', 'surrogateescape')
        if is_home:
            if not dec.startswith('/'):
                viol('home-trash-relative-path', value=val[:200])
            loc = dec
        else:
            under = want_loc.startswith(vol.rstrip('/') + '/')
            if under and (dec.startswith('/') or '..' in dec.split('/')):
                viol('volume-trash-path-not-relative', value=val[:200], volume=vol)
            loc = dec if dec.startswith('/') else os.path.join(vol, dec)
        if loc != want_loc:
            viol('decoded-path-differs', decoded=loc)
        raw = want_loc.encode('utf-8', 'surrogateescape')
        esc = any(c not in spec.UNRESERVED and c != 0x2f for c in
                  raw[len(w.R):])
        if esc:
            obs['needs_escape'] = 1
        dt = spec.parse_date(m.group(2).decode('ascii'))
        if case.get('put_clock'):
            if dt != spec.parse_date(case['put_clock']):
                viol('date-differs-from-clock', got=str(dt), clock=case['put_clock'])
        else:
            if dt is None or not (t_before <= dt <= t_after):
                viol('date-outside-run-bracket', got=str(dt),
                     bracket=[str(t_before), str(t_after)])
        if out['violations']:
            out['verdict'] = 'violation'
            return out
        # ---- the readers
        date_txt = m.group(2).decode('ascii').replace('T', ' ')
        largs = ['--trash-dir', tdir_given] if '--trash-dir' in case['opts'] else []
        rl = run.run(w, 'list', largs, stdin=b'', contracts=ALLC)
        want_line = '%s %s' % (date_txt, want_loc)
        if want_line not in rl.outtext():
            viol('trash-list-does-not-show-path', want=want_line,
                 got=rl.outtext()[-500:], err=rl.errtext()[-300:])
        if largs:
            # the same trash directory named after others (one of them twice,
            # on another volume): it keeps its own base directory
            others = [w.abs(m) for m in (w.desc.get('mounts') or [''])
                      if w.abs(m) != vol.rstrip('/')] or [w.R]
            x = others[index_of(case) % len(others)] + '/no-such-trash-dir'
            rl2 = run.run(w, 'list', ['--trash-dir', x, '--trash-dir', x + '/']
                          + largs, stdin=b'', contracts=ALLC)
            obs['listed_after_other_trash_dirs'] = 1
            if want_line not in rl2.outtext():
                viol('trash-list-does-not-show-path/several-trash-dirs',
                     want=want_line, got=rl2.outtext()[-500:],
                     err=rl2.errtext()[-300:])
        if index_of(case) % 3 == 1:
            # the other output form of trash-list ("original -> backup copy"):
            # the same location
            rf = run.run(w, 'list', largs + ['--files'], stdin=b'', contracts=ALLC)
            obs['listed_with_files_option'] = 1
            if ('\n' + want_line + ' -> ') not in ('\n' + rf.outtext()):
                viol('trash-list-does-not-show-path/--files', want=want_line,
                     got=rf.outtext()[-500:], err=rf.errtext()[-300:])
        rr = run.run(w, 'restore', largs, stdin=b'', cwd=w.R, contracts=ALLC)
        lst = trashio.parse_restore_listing(rr.outtext())
        if not any(p == want_loc and d == date_txt for i, d, p in lst):
            viol('trash-restore-does-not-show-path', want=want_line,
                 got=lst[:5], err=rr.errtext()[-300:])
        if '--trash-dir' not in case['opts']:
            pat = spec.glob_escape(want_loc)
            s2 = w.snapshot()
            rm = run.run(w, 'rm', [pat], stdin=b'', contracts=ALLC)
            s3 = w.snapshot()
            if o['info'] in s3 or o['payload'] in s3:
                viol('trash-rm-exact-path-did-not-match', pattern=pat,
                     err=rm.errtext()[-300:])
        for rx in (rl, rr):
            for c in rx.contracts:
                viol('contract:' + c['contract'], contract=c)
            for k, n in rx.ccounts.items():
                obs['c_' + k] = obs.get('c_' + k, 0) + n
        if not out['violations']:
            obs['e2e_readers_agree'] = 1
        out['nontrivial'] = esc
        out['sample_obs'] = {'info': info.decode('ascii', 'replace'),
                             'location': want_loc}
    out['verdict'] = 'violation' if out['violations'] else 'ok'
    return out
