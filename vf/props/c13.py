"""C13 - trash-restore offers the right entries and restores exactly the
indices chosen (all-or-nothing when an index is out of range)."""
import os

from .. import contracts, gen, putcheck, run, snap, spec, trashgen, trashio, trashworld, world

ID = 'C13'
ALLC = ['parse_indexes', 'scope', 'parse_path', 'parse_deletion_date']


def config(tier):
    return {
        'level': 'exploration',
        'cold_sample': 3 if tier == 'quick' else 20,
        'cases': 3600 if tier == 'quick' else 60000,
        'budget_s': 50 if tier == 'quick' else 560,
        'floors': {'cases': 200, 'c_parse_indexes': 40000,
                   'c_original_location_matches_path': 40000,
                   'e2e_runs': 150, 'e2e_all_in_range': 50,
                   'e2e_rejected': 40, 'index_agreement_checked': 100},
        'rule': 'two kinds of case: (direct) batches of generated reply '
                'strings x list lengths fed to the real parse_indexes, and '
                '(location, directory) pairs fed to the real scope test, '
                'contracts bound; (e2e) worlds with sibling-prefix locations '
                '(/a/foo, /a/foobar, /a/foo/bar), several trash dirs, equal '
                'dates, each --sort, replies from a grammar-based generator; '
                'non-trivial = n >= 2 and the reply is not a single valid index',
        'assumptions': ['vf/spec.py reply grammar and scope test'],
    }


def setup(tier):
    run.prepare()
    contracts.bind(ALLC)


# -------------------------------------------------------------- replies
def gen_reply(rng, n):
    """(reply, class)"""
    def idx(valid=True):
        if valid and n > 0:
            return rng.randrange(n)
        return rng.choice([n, n + 1, n + 10, 10 ** 6, 10 ** 18])
    r = rng.random()
    if r < 0.12:
        return str(idx()), 'single'
    if r < 0.30:
        parts = []
        for _ in range(rng.randint(1, 4)):
            if rng.random() < 0.5 and n > 0:
                a = rng.randrange(n)
                b = rng.randrange(a, n)
                parts.append('%d-%d' % (a, b))
            else:
                parts.append(str(idx()))
        return ','.join(parts), 'valid-list'
    if r < 0.38:
        return '0-%d' % (n - 1) if n else '0-0', 'all'
    if r < 0.46:
        a = idx()
        b = idx()
        if a < b:
            a, b = b, a
        return '%d-%d' % (a, b), 'reversed-or-equal'
    if r < 0.54:
        a = idx()
        return '%d,%d' % (a, a), 'duplicated'
    if r < 0.64:
        v = rng.choice([str(n), '%d-%d' % (0, n), '%d,%d' % (0, n) if n else '0',
                        '%d-%d' % (n, n + 2), str(idx(False)),
                        '0-%d' % 10 ** 7])
        return v, 'out-of-range'
    if r < 0.72:
        return rng.choice(['', ' ', ',', '0,', ',0', '0,,1', '-', '0-', '-0',
                           '--', '0--1', '1-2-3', ',-,']), 'empty-parts'
    if r < 0.80:
        return rng.choice(['a', '0a', 'zero', '0x1', '1e0', '0.0', '0;1',
                           'q', 'all', '*', '0 1', 'y']), 'letters'
    if r < 0.90:
        return rng.choice([' 0', '0 ', '+0', '0 , 0', '0 - 0', '00', '0_0',
                           '٠', '０', '\t0', '0\r', '+0-+0', '1_0']), 'lenient'
    return ''.join(rng.choice('0123456789,- ') for _ in range(rng.randint(1, 9))), 'random'


def model_parse(reply, n):
    """the all-or-nothing reading with Python int() leniency:
    list of indices, or None when the reply must be rejected"""
    out = []
    for part in reply.split(','):
        if '-' in part:
            fl = part.split('-', 2)
            if len(fl) != 2:
                return None
            a, b = fl
            if a == '' or b == '':
                return None
            try:
                a, b = int(a), int(b)
            except ValueError:
                return None
            if b - a > 10 ** 6:
                return None if (a < 0 or b >= n) else list(range(a, b + 1))
            out.extend(range(a, b + 1))
        else:
            try:
                out.append(int(part))
            except ValueError:
                return None
    for i in out:
        if i < 0 or i >= n:
            return None
    return out


LOCS = ['a/foo', 'a/foobar', 'a/foo/bar', 'a/foo/bar/baz', 'a/fo', 'a/b',
        'a b/c', 'ab/c', 'a', 'deep/er/and/deeper/x', 'a/foo bar', 'a/foo.txt',
        'A/foo', 'a/Foo', 'x', 'a/foo+bar', '..cache', '...', 'a/..foo/x',
        'a/.hidden', 'a/b..c', '..a/b', 'a/...', '. /x', 'a/caf\u00e9',
        '\u00fc/x', 'a/\u4e2d\u6587', 'a/k=v/notes', 'a/x=1.log', 'a/p&q',
        'a/1+1', 'a/x,y', 'a/u@h:p',
        # names that hold what LOOKS like an escape (decoded exactly once)
        'a/my%20notes.txt', 'a%2Fb/c', 'a/%41', 'a/100%', 'a/%25', 'a/%2e%2e',
        'a/data.', 'a/v1..', ]


def gen_nested_case(rng, index, tier):
    """entries whose original locations are nested (a file, then the directory
    that held it, trashed one after the other) and a reply naming them in some
    order: the indices are restored in the order typed"""
    L, trashes, _ = trashworld.make(rng, index, n_entries=0, volumes=[],
                                    home_own=False, xdg='unset', tz=None)
    t = trashes[0]
    ents = []
    D = 'top/proj %d' % (index % 7)

    def add(name, loc, date, kind):
        e = trashgen.add_trashed(L, rng, t['rel'], name, loc, date, kind,
                                 'c%d%s' % (index, name), volume_rel='',
                                 home=t['home'])
        ents.append(e)
    add('x', D + '/x.txt', '2012-01-01T10:00:00', 'file')
    add('D', D, '2012-01-01T10:00:05', rng.choice(['tree', 'dir_empty']))
    if rng.random() < 0.5:
        add('y', D + '/sub/deep/y', '2012-01-01T09:00:00', rng.choice(['file', 'empty']))
    if rng.random() < 0.5:
        add('o', 'top/other', '2012-01-02T00:00:00', 'file')
    L.add({'p': 'top', 't': 'd'})
    case = L.desc()
    case['kind'] = 'nested'
    case['entries'] = ents
    case['sort'] = rng.choice([None, 'date', 'path', 'none'])
    case['order'] = rng.random()         # which permutation of the listing
    case['subset'] = rng.choice(['all', 'all', 'x+D', 'D+x'])
    return case


def run_nested(case):
    import random
    out = {'violations': [], 'obs': {}, 'features': ['nested', 'sort:%s' % case['sort']]}
    obs = out['obs']
    ents = case['entries']
    with world.World(case) as w:
        args = ['--sort', case['sort']] if case['sort'] else []
        cwd = w.abs('top')
        r0 = run.run(w, 'restore', args, stdin=b'\n', cwd=cwd, contracts=ALLC)
        lst = trashio.parse_restore_listing(r0.outtext())
        by_path = dict((w.abs(e['loc']), e) for e in ents)
        if sorted(p for i, d, p in lst) != sorted(by_path):
            out['verdict'] = 'inconclusive'
            out['why'] = 'listing differs (C13 main oracle judges that)'
            return out
        idx_of = dict((by_path[p]['name'], i) for i, d, p in lst)
        rng = random.Random(int(case['order'] * 10 ** 9))
        if case['subset'] == 'x+D':
            order = [idx_of['x'], idx_of['D']]
        elif case['subset'] == 'D+x':
            order = [idx_of['D'], idx_of['x']]
        else:
            order = list(idx_of.values())
            rng.shuffle(order)
        if rng.random() < 0.3:
            order.append(order[0])                # an index given twice counts once
        reply = ','.join(str(i) for i in order)
        s0 = putcheck.norm_sig(w.snapshot())
        r = run.run(w, 'restore', args, stdin=(reply + '\n').encode(), cwd=cwd,
                    contracts=ALLC)
        s1 = putcheck.norm_sig(w.snapshot())
        if r.timeout or r.audit_ok() is False:
            out['verdict'] = 'inconclusive'
            out['why'] = 'watchdog' if r.timeout else 'audit mismatch'
            return out
        obs['nested_runs'] = 1
        row = dict((i, by_path[p]) for i, d, p in lst)
        # sequential model: typed order, first occurrence of an index counts,
        # the first refusal (destination exists) ends the run
        occupied = set(s0)
        expect_restored, refused = [], None
        seen = set()
        for i in order:
            if i in seen:
                continue
            seen.add(i)
            e = row[i]
            if e['loc'] in occupied:
                refused = e
                break
            expect_restored.append(e)
            pk = trashworld.pair_keys(e)[1]
            occupied.add(e['loc'])
            for k in snap.subtree(s0, pk):
                if k:
                    occupied.add(e['loc'] + '/' + k)
            par = os.path.dirname(e['loc'])
            while par and par not in occupied:
                occupied.add(par)
                par = os.path.dirname(par)

        def viol(mech, **kw):
            d = {'reply': reply, 'listing': lst, 'run': r.brief(),
                 'expected_restored': [x['name'] for x in expect_restored],
                 'expected_refused': refused and refused['name']}
            d.update(kw)
            out['violations'].append({'mechanism': mech, 'detail': d})
        for e in ents:
            st = trashworld.entry_state(s0, s1, e)
            pk = trashworld.pair_keys(e)[1]
            pay0 = snap.subtree(s0, pk)
            at = snap.subtree(s1, e['loc'])
            if any(e is x for x in expect_restored):
                # every node of the payload is at the destination (a directory
                # may have received other restored entries since)
                ok = st == 'gone' and all(
                    k in at and (at[k] == v or (v[0] == 'd' and at[k][:4] == v[:4]))
                    for k, v in pay0.items())
                if ok:
                    obs['nested_restored'] = obs.get('nested_restored', 0) + 1
                else:
                    viol('chosen-entry-not-restored-in-typed-order/%s' % e['name'],
                         state=st)
            elif st != 'intact':
                viol('entry-not-chosen-or-refused-but-changed/%s' % e['name'], state=st)
        if refused is not None:
            obs['nested_refusals'] = 1
            if r.exit == 0:
                viol('exit0-after-refusal')
        elif r.exit != 0:
            viol('nonzero-exit-though-all-restorable')
    out['nontrivial'] = True
    out['sample_obs'] = {'reply': reply, 'exit': r.exit}
    out['verdict'] = 'violation' if out['violations'] else 'ok'
    return out


def gen_case(rng, index, tier):
    if index % 20 == 7:
        return gen_nested_case(rng, index, tier)
    if index % 3 == 0:
        return {'kind': 'direct', 'n': 500 if tier == 'quick' else 1000,
                'seed': rng.getrandbits(48)}
    n = rng.randint(1, 9)
    locs = rng.sample(LOCS, min(n, len(LOCS)))
    L, trashes, _ = trashworld.make(rng, index, n_entries=0,
                                    volumes=rng.choice([[], ['v1']]),
                                    home_own=False, xdg='unset')
    tz = L.env.get('TZ')
    pool = ['2001-01-01T00:00:00', '2002-02-02T02:02:02',
            '2002-02-02T02:02:03', '1999-12-31T23:59:59',
            '2030-06-06T06:06:06']
    if tz in trashgen.DST_ZONES:
        # wall-clock times around the zone's switches: the order is that of
        # the DeletionDate values as written
        pool = trashgen.DST_ZONES[tz] + pool[:2]
    dates = [rng.choice(pool) for _ in locs]
    entries = []
    base = 'top'      # all locations live under R/top (on the root volume)
    for i, (lc, dt) in enumerate(zip(locs, dates)):
        t = rng.choice([t for t in trashes if t['volume'] == ''])
        loc = base + '/' + lc
        # no nested destinations among entries: C06's business
        info_text = None
        if any(c in lc for c in '=&+,@:') and rng.random() < 0.6:
            # written by another implementation: characters that RFC 2396
            # allows in a path segment are left as they are
            pv = trashgen.path_value(loc, '', t['home'])
            for esc, ch in (('%3D', '='), ('%26', '&'), ('%2B', '+'),
                            ('%2C', ','), ('%40', '@'), ('%3A', ':')):
                pv = pv.replace(esc, ch)
            info_text = world.trashinfo_text(pv, dt)
        e = trashgen.add_trashed(L, rng, t['rel'], 'n%d' % i, loc, dt,
                                 rng.choice(['file', 'empty', 'link_dangling',
                                             'dir_empty']),
                                 'c%de%d' % (index, i), volume_rel='',
                                 home=t['home'], info_text=info_text)
        entries.append(e)
    # the same path trashed twice (file kinds, distinct dates): both are
    # listed; with --overwrite both selected ones are restored, the later
    # over the earlier
    dup = False
    plain = [e for e in entries if e['kind'] in ('file', 'empty')]
    if plain and rng.random() < 0.3:
        src = rng.choice(plain)
        t = rng.choice([t for t in trashes if t['volume'] == ''])
        e = trashgen.add_trashed(L, rng, t['rel'], 'dup', src['loc'],
                                 '2011-11-1%dT11:11:11' % rng.randint(0, 9),
                                 rng.choice(['file', 'empty']),
                                 'c%ddup' % index, volume_rel='', home=t['home'])
        entries.append(e)
        dup = True
    # one entry on another volume (never in scope of R/top)
    if 'v1' in L.mounts:
        t1 = [t for t in trashes if t['volume'] == 'v1']
        if t1:
            entries.append(trashgen.add_trashed(
                L, rng, t1[0]['rel'], 'far', 'v1/top/a/foo',
                '2005-05-05T05:05:05', 'file', 'c%dfar' % index,
                volume_rel='v1'))
    scopes = ['top', 'top/a', 'top/a/foo', 'top/a/fo', 'top/deep', '',
              'top/a/foo/bar', 'top/a b', 'top/nothing-here']
    sc = rng.choice(scopes)
    how = rng.choice(['cwd', 'cwd', 'arg-abs', 'arg-rel', 'arg-trailing-slash'])
    if rng.random() < 0.1:
        # the path argument is (now) a symbolic link to a directory: original
        # locations are compared as recorded, nothing is resolved
        how = 'arg-link-dir'
    L.add({'p': 'top', 't': 'd'})
    if how == 'cwd' or how == 'arg-rel':
        # the scope directory must exist to be the cwd; create it unless an
        # entry is to be restored exactly there
        pass
    case = L.desc()
    case['kind'] = 'e2e'
    case['entries'] = entries
    case['scope'] = sc
    case['how'] = how
    case['sort'] = rng.choice([None, 'date', 'path', 'none'])
    case['overwrite'] = rng.random() < (0.6 if dup else 0.1)
    nin = len([e for e in entries if spec.in_scope('/' + e['loc'], '/' + sc if sc else '/')])
    case['reply'], case['rclass'] = gen_reply(rng, nin)
    if how == 'arg-link-dir' and any(
            e['loc'] == sc or sc.startswith(e['loc'] + '/') for e in entries):
        how = case['how'] = 'arg-abs'       # the link would sit on a destination
    if how == 'arg-link-dir':
        case['reply'], case['rclass'] = 'q', 'malformed-link-scope'
    if rng.random() < 0.08:
        # a terminal / locale that cannot show every name (PYTHONIOENCODING,
        # legacy 8-bit locales): refusing to go on is fine, showing one thing
        # and restoring another is not
        case['stdout_encoding'] = rng.choice(['ascii', 'latin-1'])
    return case


def nested(entries):
    locs = [e['loc'] for e in entries]
    for a in locs:
        for b in locs:
            if a != b and b.startswith(a + '/'):
                return True
    return False


def run_direct(case):
    import random
    rng = random.Random(case['seed'])
    from trashcli.restore.restore_asking_the_user import parse_indexes, InvalidEntry
    from trashcli.restore.trashed_file import TrashedFile
    out = {'violations': [], 'obs': {}, 'features': ['direct']}
    contracts.SINK.reset()
    accepted = rejected = other = 0
    for i in range(case['n']):
        n = rng.choice([1, 1, 2, 3, 5, 10, 20, 100])
        reply, cls = gen_reply(rng, n)
        if reply.endswith('0-%d' % 10 ** 7):
            continue
        try:
            parse_indexes(reply, n)
            accepted += 1
        except InvalidEntry:
            rejected += 1
            if spec.STRICT_REPLY.match(reply) and \
                    spec.parse_reply(reply, n) is not None:
                out['violations'].append({
                    'mechanism': 'parse_indexes-rejects-valid-reply',
                    'detail': {'reply': reply, 'n': n}})
        except Exception as e:
            other += 1
            if spec.STRICT_REPLY.match(reply):
                out['violations'].append({
                    'mechanism': 'parse_indexes-raises-%s' % type(e).__name__,
                    'detail': {'reply': reply, 'n': n}})
    comps = ['a', 'foo', 'foobar', 'fo', 'foo bar', 'b', '..x', '...', '.h',
             'a..b', '', 'a/b']
    for i in range(case['n']):
        loc = '/' + '/'.join(rng.choice(comps[:10]) for _ in range(rng.randint(1, 4)))
        v = rng.random()
        if v < 0.4:
            d = loc[:rng.randrange(1, len(loc) + 1)]
        elif v < 0.6:
            d = os.path.dirname(loc) or '/'
        elif v < 0.7:
            d = '/'
        else:
            d = '/' + '/'.join(rng.choice(comps[:10]) for _ in range(rng.randint(1, 3)))
        if len(d) > 1:
            d = d.rstrip('/')
        TrashedFile(loc, None, 'i', 'f').original_location_matches_path(d or '/')
    # the directory a run is scoped to: the path argument resolved against the
    # directory the command is started in - "/" included
    from trashcli.restore.restore_arg_parser import RestoreArgParser
    import posixpath
    for i in range(200):
        curdir = rng.choice(['/', '/', '/a', '/a/b', '/a b', '/home/u', '/a/'])
        parg = rng.choice(['', '', 'x', 'x/y', '.', '..', './x', 'x/', '/abs/p',
                           '/', '//d', '../..', 'a/../b'])
        try:
            got = RestoreArgParser().parse_restore_args(
                ['trash-restore'] + ([parg] if parg else []), curdir).path
        except SystemExit:
            continue
        want = posixpath.normpath(posixpath.join(curdir, parg))
        if want.startswith('//'):
            want = '/' + want.lstrip('/')
        out['obs']['scope_paths_checked'] = out['obs'].get('scope_paths_checked', 0) + 1
        if got != want and not (parg.startswith('//')):
            out['violations'].append({
                'mechanism': 'scope-of-run-miscomputed',
                'detail': {'curdir': curdir, 'argument': parg, 'got': got,
                           'want': want}})
            break
    for k, nn in contracts.SINK.counts.items():
        out['obs']['c_' + k] = nn
    out['obs']['direct_accepted'] = accepted
    out['obs']['direct_rejected'] = rejected
    out['obs']['direct_other_exception'] = other
    for f in contracts.SINK.fails:
        out['violations'].append({'mechanism': 'contract:' + f['contract'],
                                  'detail': f})
    out['nontrivial'] = True
    out['key'] = 'direct-%d' % case['seed']
    out['sample_obs'] = dict(contracts.SINK.counts)
    out['verdict'] = 'violation' if out['violations'] else 'ok'
    return out


def run_case(case):
    if case['kind'] == 'direct':
        return run_direct(case)
    if case['kind'] == 'nested':
        return run_nested(case)
    out = {'violations': [], 'obs': {}, 'features': ['e2e']}
    obs = out['obs']
    ents = case['entries']
    with world.World(case) as w:
        sc_abs = w.abs(case['scope']) if case['scope'] else w.R
        args = []
        if case['sort']:
            args += ['--sort', case['sort']]
        if case.get('overwrite'):
            args.append('--overwrite')
        how = case['how']
        cwd = w.R
        if how == 'cwd':
            if not os.path.isdir(sc_abs):
                if os.path.lexists(sc_abs):
                    how = 'arg-abs'
                else:
                    os.makedirs(sc_abs)
            cwd = sc_abs
        if how == 'arg-link-dir':
            if os.path.lexists(sc_abs) or sc_abs == w.R:
                how = 'arg-abs'
            else:
                os.makedirs(os.path.dirname(sc_abs), exist_ok=True)
                os.makedirs(w.R + '/moved-away/a/foo')
                os.symlink(w.R + '/moved-away', sc_abs)
                obs['scope_is_a_link_to_a_directory'] = 1
                args.append(sc_abs)
        if how == 'arg-abs':
            args.append(sc_abs)
        elif how == 'arg-rel':
            rel = os.path.relpath(sc_abs, w.R)
            args.append(rel)
        elif how == 'arg-trailing-slash':
            args.append(sc_abs + '/')
        s0 = putcheck.norm_sig(w.snapshot())
        reply = case['reply']
        plan = {'stdout_encoding': case['stdout_encoding']} \
            if case.get('stdout_encoding') else None
        r = run.run(w, 'restore', args, stdin=(reply + '\n').encode('utf-8'),
                    cwd=cwd, contracts=ALLC, plan=plan)
        s1 = putcheck.norm_sig(w.snapshot())
        if r.timeout or r.audit_ok() is False:
            out['verdict'] = 'inconclusive'
            out['why'] = 'watchdog' if r.timeout else 'audit mismatch'
            return out
        if plan:
            out['features'].append('stdout:' + case['stdout_encoding'])
            obs['narrow_stdout_runs'] = 1
            if 'UnicodeEncodeError' in r.errtext() and r.exit != 0:
                # the listing could not be printed: nothing may have moved
                obs['unprintable_listing_refused'] = 1
                if s1 != s0:
                    out['violations'].append({
                        'mechanism': 'restored-something-after-unprintable-listing',
                        'detail': {'run': r.brief()}})
                out['nontrivial'] = False
                out['verdict'] = 'violation' if out['violations'] else 'ok'
                return out
        obs['e2e_runs'] = 1
        for k, n in r.ccounts.items():
            obs['c_' + k] = obs.get('c_' + k, 0) + n
        out['features'] += ['sort:%s' % case['sort'], 'how:' + how,
                            'reply:' + case['rclass']]

        def viol(mech, **kw):
            d = {'run': r.brief(), 'reply': reply, 'scope': sc_abs,
                 'cwd': cwd, 'args': args}
            d.update(kw)
            out['violations'].append({'mechanism': mech, 'detail': d})

        for c in r.contracts:
            viol('contract:' + c['contract'], contract=c)
        lst = trashio.parse_restore_listing(r.out.decode(
            case.get('stdout_encoding') or 'utf-8', 'replace'))
        want = {}
        pool = []
        for e in ents:
            full = w.abs(e['loc'])
            if spec.in_scope(full, sc_abs):
                want[full] = e
                pool.append((full, e['date'].replace('T', ' '), e))
        listed = sorted((p, d) for i, d, p in lst)
        if listed != sorted((p, d) for p, d, e in pool):
            viol('listed-set-differs-from-scope',
                 listed=listed, expected=sorted((p, d) for p, d, e in pool))
            out['verdict'] = 'violation'
            return out
        row_entry = {}
        left = list(pool)
        for i, d, p in lst:
            for j, (pp, dd, e) in enumerate(left):
                if pp == p and dd == d:
                    row_entry[i] = e
                    del left[j]
                    break
        if [i for i, d, p in lst] != list(range(len(lst))):
            viol('numbering-has-gaps', listing=lst)
        # order
        if case['sort'] in (None, 'date'):
            ds = [d for i, d, p in lst]
            if ds != sorted(ds):
                viol('not-sorted-by-date', listing=lst)
        elif case['sort'] == 'path':
            ps = [p for i, d, p in lst]
            if ps != sorted(ps):
                viol('not-sorted-by-path', listing=lst)
        # which entries were restored
        n = len(lst)
        strict = bool(spec.STRICT_REPLY.match(reply))
        if reply == '':
            expect = []
        elif strict:
            expect = spec.parse_reply(reply, n)
        else:
            expect = model_parse(reply, n)
        sel_entries = [row_entry[i] for i in sorted(set(expect or []))
                       if i < n]
        skip = nested(sel_entries)
        sel_locs = [e['loc'] for e in sel_entries]
        shared = len(set(sel_locs)) != len(sel_locs)
        if shared and not case.get('overwrite'):
            # two selected entries for one path without --overwrite: the
            # second must be refused - C06's business
            obs['shared_destination_skipped'] = 1
            skip = True
        if any(e['loc'] in s0 for e in sel_entries):
            # a selected destination is occupied (by the cwd of the run or a
            # parent directory): refusal is C06's business
            obs['occupied_selection_skipped'] = 1
            skip = True
        if skip:
            # two selected entries with nested destinations: C06's business
            obs['nested_selection_skipped'] = 1
        restored = []
        # with --overwrite the LAST selected entry for a path is what stands
        # there in the end; the earlier ones were restored and then replaced
        last_for_loc = {}
        if expect:
            seen_i = set()
            for i in expect:            # an index given twice counts once
                if i < n and i not in seen_i:
                    seen_i.add(i)
                    last_for_loc[row_entry[i]['loc']] = i
        for i, d, p in lst:
            e = row_entry[i]
            ik, pk = trashworld.pair_keys(e)
            pay0 = snap.subtree(s0, pk)
            at = snap.subtree(s1, e['loc'])
            st = trashworld.entry_state(s0, s1, e)
            if st == 'gone' and shared and case.get('overwrite') and expect \
                    and i in expect and last_for_loc.get(e['loc']) != i:
                restored.append(i)          # restored, later overwritten
                obs['overwritten_by_later_selection'] = 1
            elif at == pay0 and st == 'gone':
                restored.append(i)
            elif st == 'intact' and (e['loc'] not in s1 or
                                     any(x is not e and x['loc'] == e['loc']
                                         for x in ents) or
                                     (s1[e['loc']][0] == 'd' and
                                      (e['loc'] in s0 or
                                       any(x['loc'].startswith(e['loc'] + '/')
                                           for x in ents)))):
                # (a directory standing at the location is the parent made
                # for another restored entry, or the cwd of the run)
                pass
            elif not skip:
                viol('entry-neither-restored-nor-intact', index=i, path=p,
                     state=st)
        if n == 0:
            if restored:
                viol('restored-with-empty-list')
        elif not skip:
            obs['index_agreement_checked'] = 1
            if expect is None:
                obs['e2e_rejected'] = 1
                if restored:
                    viol('restored-something-though-reply-invalid/%s' % case['rclass'],
                         restored=restored)
                if r.exit == 0:
                    viol('exit0-on-invalid-reply/%s' % case['rclass'])
            else:
                if reply != '':
                    obs['e2e_all_in_range'] = 1
                if sorted(set(expect)) != sorted(restored):
                    if strict or reply == '':
                        viol('restored-set-differs/%s' % case['rclass'],
                             restored=restored, expected=sorted(set(expect)))
                    elif restored:
                        viol('lenient-reply-restored-unexpected-set',
                             restored=restored, expected=sorted(set(expect)))
        # frame: nothing but the selected entries' pairs and destinations
        # (and parents created for them) may change
        allowed = []
        for e in ents:
            ik, pk = trashworld.pair_keys(e)
            allowed += [ik, pk, e['loc']]
        stray = []
        for k, x, y in snap.diff(s0, s1):
            if any(k == a or k.startswith(a + '/') for a in allowed):
                continue
            if x is None and y is not None and y[0] == 'd' and \
                    any(e['loc'].startswith(k + '/') for e in ents):
                continue
            stray.append((k, snap.fmt_entry(x), snap.fmt_entry(y)))
        if stray:
            viol('restore-changed-something-else', stray=stray[:6])
        # entries not listed must be untouched
        for e in ents:
            if not any(e is x for p_, d_, x in pool):
                if trashworld.entry_state(s0, s1, e) != 'intact':
                    viol('out-of-scope-entry-touched', entry=e)
        out['nontrivial'] = n >= 2 and case['rclass'] != 'single'
        out['sample_obs'] = {'exit': r.exit, 'reply': reply, 'n': n,
                             'restored': restored,
                             'stderr': r.errtext()[-200:]}
    out['verdict'] = 'violation' if out['violations'] else 'ok'
    return out
