"""C18 - trash-put acts on the named entry itself and never follows a final
symlink; restore recreates the same link."""
import os

from .. import gen, putcheck, run, snap, spec, trashio, world
from . import c01

ID = 'C18'

LINK_KINDS = ['link_file', 'link_dir', 'link_dangling', 'link_link',
              'link_self', 'link_dir', 'link_file', 'link_up', 'link_up']
SPELL = ['rel', 'abs', 'trail1', 'trail2', 'trail3', 'abs_trail',
         'via_link_parent', 'dotslash', 'double_slash', 'dotdot',
         'dotdot_link', 'via_link_ancestor']


def config(tier):
    return {
        'level': 'exploration',
        'cold_sample': 4 if tier == 'quick' else 30,
        'real_sample': 8 if tier == 'quick' else 60,
        'cases': 3500 if tier == 'quick' else 80000,
        'budget_s': 45 if tier == 'quick' else 560,
        'floors': {'cases': 250, 'links_trashed': 150, 'restored_ok': 100,
                   'targets_checked': 150},
        'rule': 'case = world + one symlink (to file/dir/nothing/link/itself, '
                'relative or absolute target, same or other volume) + spelling '
                'with 0-3 trailing slashes or through other links + option; '
                'non-trivial = final component is a symlink and the command '
                'touched the file system; distinct by case hash',
        'assumptions': ['virtual mount table', 'kernel + tmpfs'],
    }


def gen_case(rng, index, tier):
    L = gen.make_layout(rng)
    workdirs = c01.setup_workdirs(L, rng)
    used = set()
    tag = 'c%d' % index
    kinds = [rng.choice(LINK_KINDS)]
    self_link = kinds[0] == 'link_self'
    if self_link:
        kinds = ['link_dangling']
    arg = c01.add_entry(L, rng, workdirs, 0, tag, used, kinds=kinds,
                        spellings=SPELL,
                        name_kw={'allow_bad_utf8': False})
    if self_link:
        # rewrite the node: the link points at its own name
        for nd in L.nodes:
            if nd['p'] == arg['rel'] and nd['t'] == 'l':
                nd['to'] = os.path.basename(arg['rel'])
        arg['kind'] = 'link_self'
    if arg['spelling'].startswith('-'):
        arg['spelling'] = './' + arg['spelling']
    opts, stdin, env_extra, optclass = c01.pick_options(
        L, rng, workdirs, [arg], index,
        allowed=['-f', '-i', '-v', 'none', '--trash-dir', '--home-fallback'])
    if optclass == '-i':
        stdin = rng.choice(['y\n', 'y\n', 'Y\n', 'n\n', ''])
    comps = []
    if arg.get('lexdir') and optclass != '-i' and 'fallback' not in optclass \
            and rng.random() < 0.7:
        # a second argument of the same command, in the directory that the
        # lexical reading of 'ld/lnk/../x' names: what trash-put remembers
        # about one argument must not leak into the other
        comp = c01.add_companion(L, rng, arg, 1, tag, used)
        if comp:
            comp['first'] = rng.random() < 0.5
            comps.append(comp)
    c01.add_stale(L, rng, [arg], index, p=0.25)
    c01.add_partial_trash_dirs(L, rng)
    hostile = False
    if rng.random() < 0.08 and 'fallback' not in optclass:
        # permissions that bite (capabilities dropped): the link sits in a
        # directory the user may not write to and/or points at a read-only
        # directory - whatever trash-put tries, the TARGET keeps its bits
        byp = dict((nd['p'], nd) for nd in L.nodes)
        par = os.path.dirname(arg['rel'])
        if par in byp and byp[par].get('t') == 'd' and rng.random() < 0.7:
            byp[par]['m'] = 0o555
            hostile = 'ro-parent'
        if arg.get('target') and arg['target'] in byp and \
                byp[arg['target']].get('t') == 'd':
            byp[arg['target']]['m'] = rng.choice([0o555, 0o500])
            hostile = hostile or 'ro-target'
    case = L.desc()
    if hostile:
        case['drop_caps'] = True
        case['hostile'] = hostile
    case['env'] = dict(case['env'], **env_extra)
    case['args'] = [arg]
    case['companions'] = comps
    case['opts'] = opts
    case['stdin'] = stdin
    case['optclass'] = optclass
    case['restore_sort'] = rng.choice(['date', 'path', None])
    return case


def run_case(case):
    out = {'violations': [], 'obs': {}, 'features': []}
    obs = out['obs']
    a = case['args'][0]
    with world.World(case) as w:
        cwd = w.cwd()
        P = c01.designated(w, cwd, a['spelling'])
        link_abs = w.abs(a['rel'])
        assert os.path.islink(link_abs)
        target_str = os.readlink(link_abs)
        spelled = world.subst(a['spelling'], w.R)
        kernel_resolves = os.path.lexists(
            spelled if spelled.startswith('/') else os.path.join(cwd, spelled))
        tdo0 = None
        if '--trash-dir' in case['opts']:
            tdo0 = world.subst(case['opts'][case['opts'].index('--trash-dir') + 1], w.R)
        exp0, _ = case_expected(w, link_abs, case, tdo0, c01.fallback_on(case), None)
        prompted = case['optclass'] == '-i' and os.access(
            spelled if spelled.startswith('/') else os.path.join(cwd, spelled), os.F_OK)
        declined = prompted and not case.get('stdin', '').lower().startswith('y')
        s0 = w.snapshot()
        comps = case.get('companions') or []
        argv = [world.subst(o, w.R) for o in case['opts']] + ['--'] + \
            [c['spelling'] for c in comps if c['first']] + \
            [world.subst(a['spelling'], w.R)] + \
            [c['spelling'] for c in comps if not c['first']]
        if comps:
            obs['with_companion_argument'] = 1
        r = run.run(w, 'put', argv, stdin=case.get('stdin', '').encode())
        s1 = w.snapshot()
        if r.timeout or r.audit_ok() is False:
            out['verdict'] = 'inconclusive'
            out['why'] = 'watchdog' if r.timeout else 'audit mismatch'
            return out
        out['features'] += ['sp:' + a['class'], 'kind:' + a['kind'],
                            'opt:' + case['optclass']]
        des = [a['rel']] + [c['rel'] for c in comps]   # the link itself is what is named (C18)
        A = putcheck.analyze(s0, s1, des)
        o = A.outcomes[0]
        st = o['state']
        obs['mutating_events'] = len(r.mut())

        def viol(mech, **kw):
            d = {'run': r.brief(), 'outcome': o, 'link': a['rel'],
                 'target': target_str,
                 'frame': [(k, p, snap.fmt_entry(x), snap.fmt_entry(y))
                           for k, p, x, y in A.frame[:8]]}
            d.update(kw)
            out['violations'].append({'mechanism': mech, 'detail': d})

        # the target (and everything else) must be untouched: frame
        if a.get('target'):
            obs['targets_checked'] = 1
            t0 = snap.subtree(s0, a['target'])
            t1 = snap.subtree(s1, a['target'])
            if t0 != t1:
                viol('target-changed/' + a['class'],
                     tdiff=snap.fmt_diff(snap.sig_diff(t0, t1), 6))
        else:
            obs['targets_checked'] = 1
        if A.frame and st in ('TRASHED', 'UNTOUCHED'):
            viol('frame:' + '+'.join(sorted(set(f[0] for f in A.frame))) +
                 '/' + a['class'])
        fb = c01.fallback_on(case)
        if st == 'TRASHED':
            obs['links_trashed'] = 1
            pay = s1[o['payload']]
            if pay[0] != 'l' or pay[5] != target_str:
                viol('payload-not-the-link/' + a['class'])
            # recorded location = realpath(parent of link)/name
            tdir = w.abs(o['trash'])
            info = trashio.read_info(w.abs(o['info']))
            vol, _given = c01.trash_dir_base(case, w, tdir)
            loc, pi = trashio.info_location(info, tdir, vol, None)
            want = spec.real_entry(link_abs)
            if loc != want:
                viol('wrong-recorded-location/' + a['class'],
                     recorded=loc, want=want)
            # trash dir: the one prescribed for the link's own volume
            tdo = None
            if '--trash-dir' in case['opts']:
                tdo = world.subst(case['opts'][case['opts'].index('--trash-dir') + 1], w.R)
            # (judged in the post-state minus the new pair is not needed:
            # expected_trash_dirs looks only at directories' existence/kind)
            exp, fvol = case_expected(w, link_abs, case, tdo, fb, s0)
            if exp is not None:
                if not exp or os.path.realpath(tdir) != os.path.realpath(exp[0]):
                    viol('wrong-trash-dir/' + a['class'], used=tdir,
                         expected=exp, file_volume=fvol)
        elif st == 'UNTOUCHED':
            obs['links_untouched'] = 1
            # a link the kernel resolves, a usable trash dir, no "no" from the
            # user: the link itself must have been trashed
            if kernel_resolves and exp0 and not declined and \
                    case.get('hostile') != 'ro-parent':
                viol('link-not-trashed-though-trashable/%s/%s' % (a['kind'], a['class']),
                     expected=exp0)
            else:
                obs['refusal_legitimate'] = 1
        elif st == 'ALTERED' and o.get('only_symlink_mtime') and fb and \
                any(e['op'] == 'symlink' for e in r.mut()):
            # the C01 known finding; not re-reported here
            obs['fallback_mtime_known_c01'] = 1
        else:
            viol('%s/%s' % (st, a['class']))
        # ---------------- restore
        if st == 'TRASHED' and not out['violations']:
            parent = os.path.dirname(link_abs)
            rargs = []
            if case.get('restore_sort'):
                rargs += ['--sort', case['restore_sort']]
            if '--trash-dir' in case['opts']:
                rargs += ['--trash-dir', tdo]
            r1 = run.run(w, 'restore', rargs, stdin=b'', cwd=os.path.realpath(parent))
            lst = trashio.parse_restore_listing(r1.outtext())
            want = spec.real_entry(link_abs)
            idx = [i for i, d, p in lst if p == want]
            if len(idx) != 1:
                viol('restore-does-not-list-link', listing=lst[:6],
                     want=want, rerr=r1.errtext()[-500:])
            else:
                r2 = run.run(w, 'restore', rargs, stdin=b'%d\n' % idx[0],
                             cwd=os.path.realpath(parent))
                s2 = w.snapshot()
                d = snap.diff(putcheck.norm_sig(s0), putcheck.norm_sig(s2))
                back = snap.subtree(s2, a['rel'])
                if back != snap.subtree(s0, a['rel']):
                    viol('restore-did-not-recreate-link',
                         before=snap.fmt_entry(s0.get(a['rel'])),
                         after=snap.fmt_entry(s2.get(a['rel'])),
                         r=r2.brief())
                else:
                    obs['restored_ok'] = 1
                    # (a companion argument's own pair stays, of course)
                    cpairs = set()
                    for oc in A.outcomes[1:]:
                        cpairs.update(x for x in (oc.get('payload'), oc.get('info')) if x)
                    pairs_left = [k for k, x, y in d if x is None and
                                  (putcheck.is_info(k) or putcheck.is_payload_root(k))
                                  and k not in cpairs]
                    if pairs_left:
                        viol('restore-left-pair', left=pairs_left)
        out['nontrivial'] = len(r.events) > 0
        out['sample_obs'] = {'exit': r.exit, 'state': st,
                             'stderr': r.errtext()[-200:]}
    out['verdict'] = 'violation' if out['violations'] else 'ok'
    return out


def case_expected(w, entry_abs, case, tdo, fb, s0):
    """expected trash dirs judged on the PRE-run world: the world has been
    mutated by the run, but only by adding trash skeletons and the pair, which
    does not change what expected_trash_dirs answers - except when the run
    itself created a directory whose absence made a candidate unusable; that
    cannot happen (absence never makes a candidate unusable)."""
    env = w.env()
    env.update({k: v for k, v in case['env'].items()
                if k == 'TRASH_ENABLE_HOME_FALLBACK'})
    try:
        exp, vol = spec.expected_trash_dirs(entry_abs, env, w.uid, w.mounts,
                                            trash_dir_opt=tdo, fallback=fb)
    except OSError:
        return None, None
    return exp, vol
