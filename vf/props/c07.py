"""C07 - trash-put picks the trash dir the spec prescribes, on the file's own
volume; creates it 0700 without prompting; never a silent cross-device copy."""
import itertools
import os

from .. import gen, putcheck, run, sched, snap, spec, trashio, world
from . import c01

ID = 'C07'

KINDS = ['file', 'empty', 'tree', 'link_file', 'link_dir', 'link_dangling',
         'dir_empty']
SPELL = ['rel', 'abs', 'via_link_parent', 'trail1', 'dotslash', 'dotdot_link',
         'abs_trail', 'rel', 'abs']
OPTS = ['none', 'none', 'none', '--trash-dir', '--home-fallback',
        'fallback-env-only', '-v']


def config(tier):
    return {
        'level': 'exploration',
        'cold_sample': 6 if tier == 'quick' else 40,
        'real_sample': 10 if tier == 'quick' else 80,
        'cases': 9000 if tier == 'quick' else 200000,
        'budget_s': 45 if tier == 'quick' else 560,
        'floors': {'cases': 500, 'expected_some': 300, 'expected_none': 20,
                   'dirs_created_checked': 300, 'delivering_renames': 300},
        'rule': 'case = sampled configuration (volumes incl. nested, home on / '
                'or own volume, .Trash and .Trash-$uid states per volume, '
                'XDG_DATA_HOME set/other-volume/empty/unset, HOME set/unset, '
                'uid, home trash symlinked to another volume) + one entry + '
                'option; non-trivial = >= 2 volumes or non-default home/XDG '
                'setting; distinct by case hash',
        'assumptions': ['virtual mount table', 'vf/spec.py decision table'],
    }


def gen_race_case(rng, index, tier):
    """two trash-put processes started together on a volume whose trash dir
    may not exist yet: each must still end in the prescribed directory"""
    L = gen.make_layout(rng, home_set=True)
    workdirs = c01.setup_workdirs(L, rng)
    v = rng.choice(list(L.mounts))
    args = []
    used = set()
    for i in range(2):
        a = c01.add_entry(L, rng, workdirs, i, 'c%dr%d' % (index, i), used,
                          kinds=['file', 'tree', 'link_dangling'],
                          spellings=['rel', 'abs'], vol=v, deep=False,
                          name=rng.choice(['foo', 'a b', 'x.txt']) + str(i))
        args.append(a)
    case = L.desc()
    case['kind'] = 'race'
    case['args'] = args
    case['opts'] = []
    case['optclass'] = 'none'
    case['states'] = {'top': L.top_state, 'alt': L.alt_state}
    case['seed'] = rng.getrandbits(30)
    case['max_sched'] = 50 if tier == 'quick' else 300
    return case


def run_race(case):
    import random
    out = {'violations': [], 'obs': {}, 'features': ['race']}
    obs = out['obs']
    rng = random.Random(case['seed'])
    ex = sched.Explorer(2)
    seen = set()
    n = 0
    while n < case['max_sched'] and not out['violations']:
        # alternate: bounded-preemption enumeration from the start of the
        # runs, and random / priority schedules
        use_ex = (n % 2 == 0) and not ex.finished
        if use_ex:
            pol = ex
            ex.start_run()
        elif n % 3 == 1:
            pol = sched.PCTPolicy(rng, 2, depth=rng.choice([1, 2, 3]), est_len=60)
        else:
            pol = sched.RandomPolicy(rng, rng.choice([0.2, 0.5, 0.8]))
        with world.World(case) as w:
            env = w.env()
            exps = []
            for a in case['args']:
                exp, fvol = spec.expected_trash_dirs(
                    w.abs(a['rel']), env, w.uid, w.mounts, trash_dir_opt=None,
                    fallback=False)
                exps.append(exp)
            s0 = w.snapshot()
            actors = [{'args': ['--', world.subst(a['spelling'], w.R)],
                       'cwd': w.cwd(),
                       'plan': {'random_seed': case['seed'] + i}}
                      for i, a in enumerate(case['args'])]
            results, trace, err = sched.run_schedule(w, actors, w.R, pol.choose)
            s1 = w.snapshot()
            n += 1
            obs['race_schedules'] = obs.get('race_schedules', 0) + 1
            if err or any(r.timeout for r in results):
                out['verdict'] = 'inconclusive'
                out['why'] = err or 'watchdog'
                return out
            key = tuple(x for x, _ in trace)
            if key not in seen:
                seen.add(key)
                obs['race_interleavings'] = obs.get('race_interleavings', 0) + 1
            A = putcheck.analyze(s0, s1, [a['rel'] for a in case['args']])
            for i, (a, o, exp) in enumerate(zip(case['args'], A.outcomes, exps)):
                bad = None
                if exp:
                    obs['race_expected_some'] = obs.get('race_expected_some', 0) + 1
                    if o['state'] != 'TRASHED' or results[i].exit != 0:
                        bad = 'race:not-trashed-though-usable-dir-exists:%s' % o['state']
                    elif os.path.realpath(w.abs(o['trash'])) != os.path.realpath(exp[0]):
                        bad = 'race:wrong-trash-dir'
                    else:
                        obs['race_right_dir'] = obs.get('race_right_dir', 0) + 1
                elif o['state'] != 'UNTOUCHED':
                    bad = 'race:trashed-though-no-dir-allowed'
                if bad:
                    out['violations'].append({
                        'mechanism': bad,
                        'detail': {'arg': a['spelling'], 'outcome': o,
                                   'expected': exp, 'states': case['states'],
                                   'trace': ['%d:%s' % t for t in trace][:80],
                                   'exits': [r.exit for r in results],
                                   'stderr': [r.errtext()[-300:] for r in results]}})
                    break
        if use_ex:
            ex.next()
    out['nontrivial'] = True
    out['sample_obs'] = {'schedules': n, 'distinct': len(seen)}
    out['verdict'] = 'violation' if out['violations'] else 'ok'
    return out


def gen_case(rng, index, tier):
    if index % 200 == 5:
        return gen_race_case(rng, index, tier)
    home_set = rng.random() > 0.06
    L = gen.make_layout(rng, home_set=home_set)
    workdirs = c01.setup_workdirs(L, rng)
    tag = 'c%d' % index
    # home trash that is a symlink to another volume
    ht = L.home_trash()
    ht_link = False
    if ht and len(L.mounts) > 1 and rng.random() < 0.08:
        others = [m for m in L.mounts if m]
        o = rng.choice(others)
        L.add({'p': o + '/real-home-trash', 't': 'd', 'm': 0o700})
        L.add({'p': ht, 't': 'l', 'to': '@/' + o + '/real-home-trash'})
        ht_link = True
    arg = c01.add_entry(L, rng, workdirs, 0, tag, set(), kinds=KINDS,
                        spellings=SPELL, name_kw={'allow_bad_utf8': False})
    if arg['spelling'].startswith('-'):
        arg['spelling'] = './' + arg['spelling']
    args = [arg]
    if rng.random() < 0.3:
        # a second argument, preferably on another volume: each argument gets
        # the trash dir of ITS volume (nothing may be remembered from the first)
        used = set([(os.path.dirname(arg['rel']), os.path.basename(arg['rel']))])
        others = [m for m in L.mounts if not arg['rel'].startswith(workdirs[m] + '/')]
        arg2 = c01.add_entry(L, rng, workdirs, 1, tag + 'b', used, kinds=KINDS,
                             spellings=['rel', 'abs'],
                             vol=rng.choice(others) if others and rng.random() < 0.8 else None,
                             name_kw={'allow_bad_utf8': False})
        if arg2['spelling'].startswith('-'):
            arg2['spelling'] = './' + arg2['spelling']
        if arg2['rel'] != arg['rel'] and not arg2['rel'].startswith(arg['rel'] + '/') \
                and not arg['rel'].startswith(arg2['rel'] + '/'):
            args.append(arg2)
            if rng.random() < 0.5:
                args.reverse()
    for a0 in list(args):
        # ... then the symlink through which an argument was reached: it lives
        # on ITS volume, not on that of the directory it points to
        if a0.get('via_link') and rng.random() < 0.6 and \
                not any(x.get('rel') == a0['via_link'] for x in args):
            args.insert(args.index(a0) + 1, c01.add_link_companion(L, rng, a0))
    opts, stdin, env_extra, optclass = c01.pick_options(
        L, rng, workdirs, args, index, allowed=set(OPTS))
    c01.add_stale(L, rng, args, index, p=0.25)
    c01.add_partial_trash_dirs(L, rng)
    case = L.desc()
    case['env'] = dict(case['env'], **env_extra)
    case['args'] = args
    case['opts'] = opts
    case['optclass'] = optclass
    case['factors'] = {
        'nvol': len(L.mounts), 'home_own': 'home' in L.mounts,
        'xdg': L.xdg, 'home_set': home_set, 'uid': L.uid,
        'ht_link': ht_link, 'opt': optclass,
        'nested': 'v1/nested' in L.mounts, 'nargs': len(args),
    }
    case['states'] = {'top': L.top_state, 'alt': L.alt_state}
    if rng.random() < 0.12:
        # whatever the user's umask: trash directories are private (0700)
        case['umask'] = rng.choice([0, 0o002, 0o077, 0o027, 0o007])
    return case


def run_case(case):
    if case.get('kind') == 'race':
        return run_race(case)
    out = {'violations': [], 'obs': {}, 'features': []}
    obs = out['obs']
    with world.World(case) as w:
        cwd = w.cwd()
        fb = c01.fallback_on(case)
        tdo = None
        if '--trash-dir' in case['opts']:
            tdo = world.subst(case['opts'][case['opts'].index('--trash-dir') + 1], w.R)
        env = w.env()
        pre = []
        for a in case['args']:
            ent_abs = w.abs(a['rel'])
            spelled = world.subst(a['spelling'], w.R)
            exp, fvol = spec.expected_trash_dirs(ent_abs, env, w.uid, w.mounts,
                                                 trash_dir_opt=tdo, fallback=fb)
            # 'file/' (ENOTDIR) and 'dangling-link/' (ENOENT) are spellings the
            # kernel itself does not resolve: refusing them as nonexistent is fine
            kernel_resolves = os.path.lexists(
                spelled if spelled.startswith('/') else os.path.join(cwd, spelled))
            pre.append((a, ent_abs, spelled, exp, fvol, kernel_resolves))
        s0 = w.snapshot()
        argv = [world.subst(o, w.R) for o in case['opts']] + ['--'] + \
            [p[2] for p in pre]
        plan = None
        if not fb and case.get('index', 0) % 8 == 3:
            # nothing may hang on a later change of mode (a directory is made
            # private by the mkdir itself): every chmod is refused.  (Without
            # the copy fallback the unchanged trash-put never calls one.)
            plan = {'pfaults': [{'ops': ['chmod', 'lchmod', 'fchmod'], 'errno': 1}]}
            obs['runs_with_chmod_refused'] = 1
        r = run.run(w, 'put', argv, stdin=b'y\ny\ny\n', plan=plan)
        s1 = w.snapshot()
        if r.timeout or r.audit_ok() is False:
            out['verdict'] = 'inconclusive'
            out['why'] = 'watchdog' if r.timeout else 'audit mismatch'
            return out
        if case.get('index', 0) % 6 == 1:
            # a kill right after a trash directory has been made: what exists
            # is already private (nothing is left for a second step)
            mk = [e['k'] for e in r.events if e.get('op') == 'mkdir' and
                  e.get('c') == 'M' and e.get('r') == 'ok'][:4]
            tdirs = set()
            for p_ in pre:
                for t_ in p_[3] or []:
                    rt = w.rel(os.path.realpath(os.path.dirname(t_)) + '/' + os.path.basename(t_))
                    if rt is not None:
                        tdirs.update([rt, rt + '/files', rt + '/info'])
            for k_ in mk:
                with world.World(case) as w2:
                    b0 = w2.snapshot()
                    r2 = run.run(w2, 'put', [a_.replace(w.R, w2.R) for a_ in argv],
                                 stdin=b'y\ny\ny\n', plan={'crash_before': k_ + 1})
                    b1 = w2.snapshot()
                    obs['kills_after_mkdir'] = obs.get('kills_after_mkdir', 0) + 1
                    for q in b1:
                        if q not in b0 and q in tdirs and b1[q][0] == 'd' and \
                                (b1[q][1] & ~0o2000) != 0o700:
                            out['violations'].append({
                                'mechanism': 'created-dir-mode-%04o/after-kill' % b1[q][1],
                                'detail': {'path': q, 'run': r2.brief(),
                                           'killed_before_op': k_ + 1}})
        out['features'] += ['%s=%s' % kv for kv in sorted(case['factors'].items())]
        A = putcheck.analyze(s0, s1, [a['rel'] for a in case['args']])
        if r.out:
            out['violations'].append({'mechanism': 'prompted-or-printed-on-stdout',
                                      'detail': {'stdout': r.outtext()[:200]}})
        if r.escapes():
            out['violations'].append({'mechanism': 'fence-escape',
                                      'detail': {'escapes': r.escapes()[:4],
                                                 'run': r.brief()}})
        all_ok_states = True
        any_known = False
        for (a, ent_abs, spelled, exp, fvol, kernel_resolves), o in zip(pre, A.outcomes):
            st = o['state']
            fvol_state = None
            volrel = w.rel(fvol)
            if volrel is not None:
                fvol_state = (case['states']['top'].get(volrel),
                              case['states']['alt'].get(volrel))
            out['features'] += ['top@filevol=%s' % (fvol_state[0] if fvol_state else '?'),
                                'alt@filevol=%s' % (fvol_state[1] if fvol_state else '?'),
                                'sp:' + a['class'], 'kind:' + a['kind']]

            def viol(mech, **kw):
                d = {'run': r.brief(), 'arg': a['spelling'], 'outcome': o,
                     'expected': exp, 'file_volume': fvol,
                     'states': case['states'], 'env': case['env'],
                     'uid': case['uid'],
                     'frame': [(k, p, snap.fmt_entry(x), snap.fmt_entry(y))
                               for k, p, x, y in A.frame[:8]]}
                d.update(kw)
                out['violations'].append({'mechanism': mech, 'detail': d})

            known_c01 = st == 'ALTERED' and o.get('only_symlink_mtime') and fb \
                and any(e['op'] == 'symlink' for e in r.mut())
            if known_c01:
                st = 'TRASHED'
                o = dict(o, trash=putcheck.trash_of(o['payload']))
                obs['fallback_mtime_known_c01'] = 1
                any_known = True
            if st not in ('TRASHED', 'UNTOUCHED'):
                all_ok_states = False
            if exp and not kernel_resolves and st == 'UNTOUCHED' and r.exit != 0:
                obs['unresolvable_spelling_refused'] = obs.get('unresolvable_spelling_refused', 0) + 1
            elif exp:
                obs['expected_some'] = obs.get('expected_some', 0) + 1
                want = os.path.realpath(exp[0])
                if st != 'TRASHED':
                    viol('not-trashed-though-usable-dir-exists:%s/%s' % (
                        st, case['optclass']))
                    continue
                got = os.path.realpath(w.abs(o['trash']))
                if got != want:
                    viol('wrong-trash-dir/%s' % case['optclass'], used=got)
                else:
                    obs['right_dir'] = obs.get('right_dir', 0) + 1
                tr = o['trash']
                for sub in ('', '/files', '/info'):
                    k = tr + sub
                    if k not in s0 and k in s1:
                        obs['dirs_created_checked'] = obs.get('dirs_created_checked', 0) + 1
                        # a directory made inside a set-gid directory
                        # inherits that bit from the kernel, not from mkdir
                        if (s1[k][1] & ~0o2000) != 0o700:
                            viol('created-dir-mode-%04o' % s1[k][1], path=k)
                # the rename that delivered THIS payload
                dst_real = os.path.realpath(w.abs(tr)) + '/files/' + o.get('name', '')
                deliver = [e for e in r.events if e['op'] in ('rename', 'replace')
                           and e.get('r') == 'ok' and e['p'][1] == dst_real]
                fdir = dst_real
                copyish = [e for e in r.mut() if e['p'] and e['p'][-1] and
                           (e['p'][-1] == fdir or e['p'][-1].startswith(fdir + '/'))
                           and (e['op'] in ('sendfile', 'symlink', 'copy_file_range',
                                            'mkdir') or
                                (e['op'] == 'bopen' and e.get('r') == 'ok'))]
                is_fb = fb and spec.volume_of(want, w.mounts) != fvol
                if is_fb:
                    obs['fallback_copies'] = obs.get('fallback_copies', 0) + 1
                else:
                    if len(deliver) != 1:
                        viol('payload-not-delivered-by-one-rename',
                             renames=deliver[:3], copyish=copyish[:3])
                    else:
                        obs['delivering_renames'] = obs.get('delivering_renames', 0) + 1
                        src, dst = deliver[0]['p']
                        sv = spec.volume_of(os.path.dirname(src), w.mounts)
                        dv = spec.volume_of(os.path.dirname(dst), w.mounts)
                        if sv != dv:
                            viol('cross-volume-rename', src=src, dst=dst)
                    if copyish:
                        viol('copy-events-without-fallback', ev=copyish[:4])
            else:
                obs['expected_none'] = obs.get('expected_none', 0) + 1
                if st != 'UNTOUCHED':
                    viol('trashed-though-no-dir-allowed:%s/%s' % (st, case['optclass']))
                if r.exit == 0:
                    viol('exit0-though-not-trashable')
                elif not putcheck.reported_failed(r.errtext(),
                                                  putcheck.stderr_encode(spelled)):
                    viol('failure-not-reported')
        if A.frame and all_ok_states and not any_known:
            out['violations'].append({
                'mechanism': 'frame:' + '+'.join(sorted(set(f[0] for f in A.frame))),
                'detail': {'run': r.brief(),
                           'frame': [(k, p, snap.fmt_entry(x), snap.fmt_entry(y))
                                     for k, p, x, y in A.frame[:8]]}})
        f = case['factors']
        out['nontrivial'] = f['nvol'] >= 2 or f['xdg'] != 'unset' or \
            not f['home_set']
        out['sample_obs'] = {'exit': r.exit,
                             'states': [o['state'] for o in A.outcomes],
                             'expected': [p[3] for p in pre]}
    out['verdict'] = 'violation' if out['violations'] else 'ok'
    return out


def extra_evidence(results):
    """pairwise coverage of factor values actually executed"""
    vals = {}
    pairs = set()
    for r in results:
        fs = [f for f in r.get('features') or [] if '=' in f]
        for f in fs:
            k, v = f.split('=', 1)
            vals.setdefault(k, set()).add(v)
        for x, y in itertools.combinations(sorted(fs), 2):
            if x.split('=')[0] != y.split('=')[0]:
                pairs.add((x, y))
    possible = 0
    ks = sorted(vals)
    for i, j in itertools.combinations(range(len(ks)), 2):
        possible += len(vals[ks[i]]) * len(vals[ks[j]])
    return {'pairwise': {'factor_values': {k: sorted(v) for k, v in vals.items()},
                         'pairs_seen': len(pairs),
                         'pairs_possible_product': possible}}
