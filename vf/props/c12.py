"""C12 - trash-rm removes exactly the entries whose original name matches the
pattern (basename, or full path for patterns starting with '/')."""
import fnmatch
import os

from .. import gen, putcheck, run, sched, snap, spec, trashgen, trashworld, world

ID = 'C12'

BASE_NAMES = ['foo', 'Foo', 'FOO', 'foo.txt', 'foo.o', 'bar', 'bar.o', 'a',
              'ab', 'abc', 'a*c', 'a?c', '[abc]', 'a[b]c', '*', '?', 'x-y',
              'data.tar.gz', 'ü', 'éa', 'a b', '.hidden', 'foo]', '!x', 'b']


def config(tier):
    return {
        'level': 'exploration',
        'cold_sample': 4 if tier == 'quick' else 30,
        'cases': 7000 if tier == 'quick' else 120000,
        'budget_s': 45 if tier == 'quick' else 560,
        'floors': {'cases': 300, 'judged_entries': 2000, 'removed': 300,
                   'kept': 500, 'fullpath_patterns': 40},
        'rule': 'case = 1-15 trashed names (case variants, names containing '
                '*?[], same basename in different directories/volumes/trash '
                'dirs) x pattern derived from the names (literal, one char '
                'mutated, runs replaced by * / ?, classes, negated classes, '
                'leading-/ full-path patterns, match-nothing/everything); '
                'non-trivial = pattern has a metacharacter and splits the set',
        'assumptions': ['vf/spec.py glob matcher is the reference for '
                        'portable patterns; for non-portable features only '
                        'the agreement of both matchers is judged'],
    }


def make_pattern(rng, names, fulls):
    r = rng.random()
    nm = rng.choice(names)
    if r < 0.12:
        return spec.glob_escape(nm), 'literal-escaped'
    if r < 0.2:
        return nm, 'literal-raw'
    if r < 0.3:
        return rng.choice(['*', '?*', '*?', '**']), 'everything'
    if r < 0.36:
        return 'zz-no-such-*', 'nothing'
    if r < 0.5:
        i = rng.randrange(len(nm) + 1)
        j = rng.randrange(i, len(nm) + 1)
        return spec.glob_escape(nm[:i]) + '*' + spec.glob_escape(nm[j:]), 'star'
    if r < 0.62:
        cs = list(nm)
        for _ in range(rng.randint(1, 2)):
            if cs:
                cs[rng.randrange(len(cs))] = '?'
        return ''.join(c if c == '?' else spec.glob_escape(c) for c in cs), 'qmark'
    if r < 0.74:
        if not nm:
            return '*', 'everything'
        i = rng.randrange(len(nm))
        c = nm[i]
        alt = rng.choice('abcxyzFO')
        cls = rng.choice(['[%s%s]' % (c, alt), '[a-z]', '[A-Z]', '[0-9a-f]',
                          '[!%s]' % c, '[!a-z]', '[%s]' % c])
        if c in ']-!^[\\':
            cls = '[a-z]'
        return spec.glob_escape(nm[:i]) + cls + spec.glob_escape(nm[i + 1:]), 'class'
    if r < 0.86:
        f = rng.choice(fulls)
        v = rng.random()
        if v < 0.4:
            return '@' + spec.glob_escape(f), 'full-literal'
        if v < 0.7:
            return '@' + spec.glob_escape(os.path.dirname(f)) + '/*', 'full-dir-star'
        return '/*' + spec.glob_escape(os.path.basename(f)), 'full-star-base'
    if r < 0.90:
        # a slash that is not leading: still a basename pattern
        return rng.choice(['*/' + spec.glob_escape(nm), '*/*',
                           'docs/' + spec.glob_escape(nm), '*' + '/' + '*' + nm[-1:]]), 'inner-slash'
    if r < 0.94:
        return rng.choice(['[^a]*', 'a\\*c', '[abc', '[]a]*', '[!]]*', '*[',
                           '[a-]*', '[z-a]*']), 'nonportable'
    # swap case of one letter: must NOT match (case-sensitive)
    cs = list(nm)
    idx = [i for i, c in enumerate(cs) if c.isalpha()]
    if idx:
        i = rng.choice(idx)
        cs[i] = cs[i].swapcase()
    return spec.glob_escape(''.join(cs)), 'case-swapped'


def gen_race_case(rng, index, tier):
    """trash-rm PATTERN racing with a trash-put of a NON-matching fresh file
    into the same volume trash dir"""
    L, trashes, entries = trashworld.make(
        rng, index, n_entries=rng.randint(1, 4), volumes=[], home_own=False,
        xdg='unset', names=['old-a', 'old-b', 'keep-c', 'old-d'],
        dates=['2005-05-05T05:05:05'], kinds=['file', 'tree', 'link_dangling'],
        trash_volumes_env=False)
    L.add({'p': L.home + '/fresh', 't': 'd'})
    L.add(gen.entry_nodes(rng, L.home + '/fresh/fresh.txt', 'file', 'fresh%d' % index))
    case = L.desc()
    case['kind'] = 'race'
    case['entries'] = entries
    case['pattern'] = 'old-*'
    case['trashes'] = [t['rel'] for t in trashes]
    case['fresh'] = L.home + '/fresh/fresh.txt'
    case['seed'] = rng.getrandbits(30)
    case['max_sched'] = 50 if tier == 'quick' else 300
    return case


def run_race(case):
    import random
    out = {'violations': [], 'obs': {}, 'features': ['race']}
    obs = out['obs']
    ex = sched.Explorer(1)
    rng = random.Random(case['seed'])
    n = 0
    seen = set()
    while n < case['max_sched']:
        pol = ex if not ex.finished else sched.RandomPolicy(rng, 0.5)
        if pol is ex:
            ex.start_run()
        with world.World(case) as w:
            s0 = w.snapshot()
            ht = spec.home_trash(w.env())
            actors = [
                {'cmd': 'rm', 'args': [case['pattern']], 'cwd': w.cwd()},
                {'cmd': 'put', 'args': ['--', w.abs(case['fresh'])], 'cwd': w.cwd()}]
            results, trace, err = sched.run_schedule(w, actors, w.R, pol.choose)
            s1 = w.snapshot()
        n += 1
        obs['race_schedules'] = obs.get('race_schedules', 0) + 1
        if err:
            out['verdict'] = 'inconclusive'
            out['why'] = err
            return out
        key = tuple(a for a, _ in trace)
        if key not in seen:
            seen.add(key)
            obs['race_interleavings'] = obs.get('race_interleavings', 0) + 1
        A = putcheck.analyze(s0, s1, [case['fresh']])
        o = A.outcomes[0]
        bad = None
        if results[1].exit != 0 or o['state'] != 'TRASHED':
            bad = 'fresh-entry-not-trashed-whole/%s' % o['state']
        for e in case['entries']:
            st = trashworld.entry_state(s0, s1, e)
            exp = spec.glob_match(os.path.basename(e['loc']), case['pattern'])
            if (exp and st != 'gone') or (not exp and st != 'intact'):
                bad = bad or 'entry-%s-though-%s' % (st, 'matching' if exp else 'not matching')
        if bad and len(out['violations']) < 2:
            out['violations'].append({
                'mechanism': 'race-with-put:' + bad,
                'detail': {'trace': ['%d:%s' % t for t in trace][:60],
                           'exits': [r.exit for r in results],
                           'stderr': [r.errtext()[-200:] for r in results]}})
        if pol is ex and not ex.next():
            obs['race_exhaustive_bound1'] = 1
        if out['violations']:
            break
    out['nontrivial'] = True
    out['sample_obs'] = {'schedules': n, 'distinct': len(seen)}
    out['verdict'] = 'violation' if out['violations'] else 'ok'
    return out


def gen_case(rng, index, tier):
    if index % 200 == 11:
        return gen_race_case(rng, index, tier)
    n = rng.randint(1, 15)
    names = [rng.choice(BASE_NAMES) if rng.random() < 0.8 else
             gen.hostile_name(rng, allow_bad_utf8=False, maxbytes=20)
             for _ in range(n)]
    hostile_perms = rng.random() < 0.08
    kinds = None
    if hostile_perms:
        # payloads that cannot be removed without a chmod; the run is made
        # without the capabilities that let root ignore mode bits
        kinds = trashgen.PAYLOAD_KINDS + ['tree_locked', 'tree_readonly'] * 2
    L, trashes, entries = trashworld.make(rng, index, n_entries=n, names=names,
                                          dates=['2005-05-05T05:05:05'],
                                          kinds=kinds)
    trashworld.mount_on_payload(L, rng, entries, p=0.06)
    # hand-edited / foreign .trashinfo files with further Path= lines after
    # the first: the first one is the entry's location (for every command)
    for e in entries:
        if rng.random() < 0.08:
            ik = trashworld.pair_keys(e)[0]
            decoy = 'elsewhere/' + rng.choice(BASE_NAMES)
            for nd in L.nodes:
                if nd['p'] == ik and isinstance(nd.get('c'), str) and \
                        nd['c'].startswith('[Trash Info]\nPath='):
                    lines = nd['c'].split('\n')
                    at = rng.choice([2, len(lines) - 1])
                    lines.insert(at, 'Path=' + decoy)
                    nd['c'] = '\n'.join(lines)
                    e['decoy_path'] = decoy
    # foreign .trashinfo files in a volume trash directory that hold an
    # ABSOLUTE Path= - of a place that is not even on that volume (written by
    # a tool that always records absolute paths, or after --force-volume)
    for e in entries:
        if e['volume'] and not e['home'] and rng.random() < 0.12 and \
                not e.get('decoy_path') and not e.get('mountpoint'):
            ik = trashworld.pair_keys(e)[0]
            newloc = 'abs-elsewhere/' + os.path.basename(e['loc'])
            for nd in L.nodes:
                if nd['p'] == ik and isinstance(nd.get('c'), str) and \
                        nd['c'].startswith('[Trash Info]\nPath='):
                    lines = nd['c'].split('\n')
                    lines[1] = 'Path=@@R@@/' + spec.pct_encode(newloc.encode('utf-8'))
                    nd['c'] = '\n'.join(lines)
                    nd['sub'] = True
                    e['loc'] = newloc
                    e['absolute_in_volume_trash'] = True
    fulls = ['/' + e['loc'] for e in entries]
    alias = None
    vol_entries = [e for e in entries if e['volume'] and not e['home']]
    if vol_entries and rng.random() < 0.08:
        # the same volume is listed under a second name (a symlink to its
        # mount point): its entries have two full original paths, a pattern
        # starting with '/' selects an entry if it matches either
        v = rng.choice(vol_entries)['volume']
        aname = 'also-' + v.replace('/', '_')
        L.add({'p': aname, 't': 'l', 'to': '@/' + v})
        items = ['@/' + m if m else '@' for m in L.mounts] + ['@/' + aname]
        if rng.random() < 0.5:
            items.reverse()
        L.env['TRASH_VOLUMES'] = ':'.join(items)
        alias = {'vol': v, 'name': aname}
        fulls += ['/' + aname + e['loc'][len(v):] for e in vol_entries
                  if e['volume'] == v and
                  not e.get('absolute_in_volume_trash')] * 3
    pat, pclass = make_pattern(rng, [os.path.basename(e['loc']) for e in entries], fulls)
    case = L.desc()
    case['entries'] = entries
    case['pattern'] = pat
    case['pclass'] = pclass
    case['trashes'] = [t['rel'] for t in trashes]
    case['alias'] = alias
    if hostile_perms:
        case['drop_caps'] = True
    return case


def run_case(case):
    if case.get('kind') == 'race':
        return run_race(case)
    out = {'violations': [], 'obs': {}, 'features': []}
    obs = out['obs']
    with world.World(case) as w:
        pat = case['pattern']
        if pat.startswith('@/'):
            pat = w.R + pat[1:]
        elif pat.startswith('/*'):
            pass
        if not pat:
            out['verdict'] = 'ok'
            return out
        s0 = w.snapshot()
        r = run.run(w, 'rm', ['--', pat] if False else [pat], stdin=b'')
        s1 = w.snapshot()
        if r.timeout or r.audit_ok() is False:
            out['verdict'] = 'inconclusive'
            out['why'] = 'watchdog' if r.timeout else 'audit mismatch'
            return out
        out['features'].append('p:' + case['pclass'])
        portable = spec.glob_is_portable(pat)
        nm = nk = 0
        for e in case['entries']:
            full = w.abs(e['loc'])
            subject = full if pat.startswith('/') else os.path.basename(full)
            m_spec = spec.glob_match(subject, pat)
            m_fn = fnmatch.fnmatchcase(subject, pat)
            al = case.get('alias')
            if al and pat.startswith('/') and e['volume'] == al['vol'] and \
                    not e['home'] and not e.get('absolute_in_volume_trash'):
                # the entry's other full path, through the volume's second name
                full2 = w.abs(al['name'] + e['loc'][len(al['vol']):])
                m_spec = m_spec or spec.glob_match(full2, pat)
                m_fn = m_fn or fnmatch.fnmatchcase(full2, pat)
                obs['alias_volume_entries'] = obs.get('alias_volume_entries', 0) + 1
            st = trashworld.entry_state(s0, s1, e)
            if portable:
                exp = m_spec
                if m_spec != m_fn:
                    obs['reference_matchers_disagree'] = \
                        obs.get('reference_matchers_disagree', 0) + 1
                    exp = None
            else:
                exp = m_spec if m_spec == m_fn else None
            if trashworld.unremovable(e, case) \
                    and exp is not False and st != 'gone':
                # a matching entry whose payload cannot be removed: what is
                # left keeps its .trashinfo, the failure is reported, and the
                # OTHER matching entries are still removed (judged as usual)
                obs['unremovable_payloads'] = obs.get('unremovable_payloads', 0) + 1
                ik, pk = trashworld.pair_keys(e)
                if ik not in s1 or s1[ik] != s0[ik]:
                    viol(out, 'unremovable-payload-lost-its-info/' + e['kind'], r, e, pat)
                elif exp is True and not r.errtext().strip():
                    viol(out, 'unremovable-payload-not-reported/' + e['kind'], r, e, pat)
                continue
            if exp is None:
                obs['not_judged'] = obs.get('not_judged', 0) + 1
                if st not in ('intact', 'gone'):
                    viol(out, 'entry-half-removed/' + st, r, e, pat)
                continue
            obs['judged_entries'] = obs.get('judged_entries', 0) + 1
            if exp and st == 'gone':
                obs['removed'] = obs.get('removed', 0) + 1
                nm += 1
            elif not exp and st == 'intact':
                obs['kept'] = obs.get('kept', 0) + 1
                nk += 1
            elif exp and st == 'intact':
                viol(out, 'matching-entry-kept/' + case['pclass'], r, e, pat)
            elif not exp and st == 'gone':
                viol(out, 'non-matching-entry-removed/' + case['pclass'], r, e, pat)
            else:
                viol(out, 'entry-half-removed/%s/%s' % (st, case['pclass']), r, e, pat)
        if pat.startswith('/'):
            obs['fullpath_patterns'] = 1
        ci = trashworld.created_inside(s0, s1, case['trashes'])
        if ci:
            out['violations'].append({'mechanism': 'purge-created-something-in-trash',
                                      'detail': {'created': ci[:6], 'run': r.brief()}})
        od = trashworld.outside_trash_diff(s0, s1, case['trashes'])
        if od:
            out['violations'].append({'mechanism': 'changed-outside-trash',
                                      'detail': {'diff': od[:6], 'run': r.brief()}})
        if 'Traceback' in r.errtext():
            out['violations'].append({'mechanism': 'traceback' + (
                '/unremovable-payload' if case.get('drop_caps') and
                'Permission denied' in r.errtext() else ''),
                                      'detail': {'run': r.brief()}})
        out['nontrivial'] = any(c in pat for c in '*?[') and nm > 0 and nk > 0
        if any(e.get('mountpoint') for e in case['entries']):
            obs['payload_is_a_mount_point'] = 1
            out['replayable'] = False    # (a real mount would hide the content)
        out['sample_obs'] = {'pattern': pat, 'removed': nm, 'kept': nk,
                             'names': [os.path.basename(e['loc'])
                                       for e in case['entries']]}
    out['verdict'] = 'violation' if out['violations'] else 'ok'
    return out


def viol(out, mech, r, e, pat):
    out['violations'].append({
        'mechanism': mech,
        'detail': {'run': r.brief(), 'entry': e, 'pattern': pat}})
