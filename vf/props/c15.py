"""C15 - killing restore, empty or rm at any instant never strands a payload
without info; re-running completes the purge."""
import os

from .. import gen, inject, putcheck, run, snap, spec, trashgen, trashio, trashworld, world

ID = 'C15'


def config(tier):
    return {
        'level': 'fault_enumeration',
        'cases': 300 if tier == 'quick' else 2500,
        'budget_s': 55 if tier == 'quick' else 570,
        'floors': {'cases': 30, 'crash_states': 800, 'reruns_completed': 600,
                   'restore_scenarios': 8, 'empty_scenarios': 8,
                   'rm_scenarios': 8, 'crash_states_restore': 300,
                   'crash_states_rm': 100, 'interrupt_states': 400},
        'rule': 'case = scenario: trash-restore (single/multi index, same or '
                'cross volume, --overwrite) | trash-empty (with/without DAYS) '
                '| trash-rm PATTERN over generated trash content (files, deep '
                'trees, symlinks, several entries and trash dirs); for EVERY '
                'mutating event k of the reference run an identical fresh '
                'world is run with _exit before k, the state judged, then the '
                'command re-run to completion and judged again; non-trivial = '
                'crash at or after the first mutating event',
        'assumptions': ['crash points are Python-level call boundaries',
                        'determinism checked by event-prefix equality'],
    }


def gen_case(rng, index, tier):
    cmd = rng.choice(['restore', 'restore', 'empty', 'empty-days', 'rm'])
    n = rng.randint(1, 5)
    dates = ['2001-01-0%dT01:01:0%d' % (1 + i % 9, i % 10) for i in range(n)]
    L, trashes, entries = trashworld.make(
        rng, index, n_entries=n, dates=dates, volumes=rng.choice([[], ['v1']]),
        home_own=False, xdg='unset',
        names=['e%d%s' % (i, rng.choice(['', ' x', '.txt', 'é', '.trashinfo',
                                             '.trashinfo.bak', '.trashinfo.trashinfo']))
               for i in range(n)],
        kinds=['file', 'tree', 'tree', 'link_dangling', 'empty', 'dir_empty'])
    if cmd != 'restore' and trashworld.mount_on_payload(L, rng, entries, p=0.15):
        pass            # a file system is mounted on one trashed directory
    case = L.desc()
    case['cmd'] = cmd
    case['entries'] = entries
    case['trashes'] = [t['rel'] for t in trashes]
    case['env'] = dict(case['env'], TRASH_DATE='2001-01-05T00:00:00')
    if cmd == 'restore':
        cross = False
        if 'v1' in L.mounts and rng.random() < 0.4:
            # an entry of the home trash whose location is on another volume:
            # restoring it is a cross-device copy + delete
            ht = [t for t in trashes if t['home']][0]
            e = trashgen.add_trashed(L, rng, ht['rel'], 'crossvol',
                                     'v1/back/cross-%d' % index,
                                     '2001-01-09T09:09:09',
                                     rng.choice(['file', 'tree']),
                                     'c%dx' % index, home=True, volume_rel='')
            entries.append(e)
            case['nodes'] = L.nodes
            cross = True
        case['cross'] = cross
        case['overwrite'] = rng.random() < 0.2
        if case['overwrite']:
            # something of the same kind already stands at some destinations
            # (a directory where a directory comes back, a file for a file)
            have = set(nd['p'] for nd in L.nodes)
            for e in entries:
                if rng.random() < 0.6 and e['loc'] not in have and \
                        not any(h.startswith(e['loc'] + '/') for h in have):
                    if e['kind'] in ('tree', 'dir_empty'):
                        L.add({'p': e['loc'], 't': 'd', 'm': 0o755})
                        L.add({'p': e['loc'] + '/already-here', 't': 'f', 'c': 'x'})
                    elif e['kind'] in ('file', 'empty'):
                        L.add({'p': e['loc'], 't': 'f', 'c': 'occupant'})
                    e['occupied'] = True
            case['nodes'] = L.nodes
        case['sel'] = rng.choice(['first', 'last', 'all', 'all'])
        if rng.random() < 0.35:
            # a .trashinfo whose payload is gone (what a killed trash-rm or
            # trash-empty leaves - a state this very property allows): its
            # restore fails in the middle of a multi-entry selection
            ht = [t for t in trashes if t['home']] or trashes
            e = trashgen.add_trashed(L, rng, ht[0]['rel'],
                                     rng.choice(['zz-gone', 'a-gone']),
                                     (L.home + '/back/gone-%d' % index),
                                     rng.choice(['2001-01-01T00:00:00',
                                                 '2001-01-09T23:59:59']),
                                     'file', 'c%dgone' % index, home=True,
                                     volume_rel='', with_payload=False)
            e['no_payload'] = True
            entries.append(e)
            case['nodes'] = L.nodes
    elif cmd == 'empty-days':
        case['days'] = rng.choice([0, 1, 2, 3])
    elif cmd == 'rm':
        case['pattern'] = rng.choice(['*', 'e[0-2]*', 'e1*', '*x', 'e*'])
    case['seed'] = rng.getrandbits(30)
    case['kills'] = 0 if tier == 'quick' else rng.choice([0, 0, 3])
    # the purge (and the purge that cleans up after a killed restore) in its
    # verbose form as well
    case['vopt'] = rng.choice([[], [], ['-v'], ['--verbose']])
    return case


def command(case, w, lst=None):
    cmd = case['cmd']
    if cmd == 'restore':
        args = ['--overwrite'] if case.get('overwrite') else []
        return 'restore', args
    if cmd == 'empty':
        return 'empty', list(case.get('vopt') or [])
    if cmd == 'empty-days':
        return 'empty', list(case.get('vopt') or []) + [str(case['days'])]
    return 'rm', [case['pattern']]


def run_case(case):
    out = {'violations': [], 'obs': {}, 'features': []}
    obs = out['obs']
    cmd = case['cmd']
    out['features'] += ['cmd:' + cmd]
    obs[{'restore': 'restore_scenarios', 'empty': 'empty_scenarios',
         'empty-days': 'empty_scenarios', 'rm': 'rm_scenarios'}[cmd]] = 1
    ents = case['entries']
    name, args = command(case, None)
    stdin = b''
    cwd = None
    if cmd == 'restore':
        # find the reply on a scratch world (listing is deterministic)
        with world.World(case) as w0:
            r0 = run.run(w0, 'restore', args, stdin=b'', cwd=w0.R)
            lst = trashio.parse_restore_listing(r0.outtext())
        n = len(lst)
        if n == 0:
            out['verdict'] = 'ok'
            return out
        reply = {'first': '0', 'last': str(n - 1), 'all': '0-%d' % (n - 1)}[case['sel']]
        stdin = (reply + '\n').encode()
        cwd = '@'      # the scope of the listing above: the whole sandbox
        out['features'].append('sel:' + case['sel'])
        if case.get('cross'):
            out['features'].append('cross-volume')
    sc = inject.Scenario(case, name, args, stdin=stdin, cwd=cwd,
                         plan={'random_seed': case.get('seed', 1),
                               # device numbers differ between the volumes
                               'vdev': cmd == 'restore'})
    w, ref, s0, s1 = sc.execute()
    try:
        if ref.timeout or ref.audit_ok() is False:
            out['verdict'] = 'inconclusive'
            out['why'] = 'reference run: watchdog or audit mismatch'
            return out
        refn = inject.norm_events(ref.events, w.R)
        ks = inject.mut_positions(ref.events)
        ref_states = [trashworld.entry_state(s0, s1, e) for e in ents]
        # the undisturbed run itself: whatever it could not remove (a mount
        # point, a busy directory) keeps its .trashinfo
        nref = putcheck.norm_sig(s1)
        obs['complete_runs_judged'] = 1
        for e in ents:
            ik, pk = trashworld.pair_keys(e)
            if pk in nref and ik not in nref:
                out['violations'].append({
                    'mechanism': 'payload-stranded-without-info/%s/complete-run' % cmd,
                    'detail': {'entry': e, 'run': ref.brief()}})
            if cmd == 'restore' and not e.get('no_payload'):
                n0_ = putcheck.norm_sig(s0)
                pay0 = snap.subtree(n0_, pk)
                if not (snap.subtree(nref, pk) == pay0 or
                        same_payload(snap.subtree(nref, e['loc']), pay0) or
                        same_payload(snap.subtree(nref, e['loc'] + '/' + e['name']), pay0)):
                    out['violations'].append({
                        'mechanism': 'restored-entry-complete-nowhere/complete-run',
                        'detail': {'entry': e, 'run': ref.brief()}})
    finally:
        w.destroy()
    if not ks:
        out['nontrivial'] = False
        out['verdict'] = 'ok'
        return out
    def judge_state(wk, rk, a0, a1):
        obs['crash_states'] = obs.get('crash_states', 0) + 1
        obs['crash_states_' + cmd] = obs.get('crash_states_' + cmd, 0) + 1
        ev = rk.crash
        if ev:
            obs['crash_before_' + ev['op']] = obs.get('crash_before_' + ev['op'], 0) + 1
        n0 = putcheck.norm_sig(a0)
        n1 = putcheck.norm_sig(a1)

        def viol(mech, **kw):
            d = {'crash_event': rk.crash, 'cmd': cmd, 'args': args,
                 'stdin': stdin.decode()}
            d.update(kw)
            out['violations'].append({'mechanism': mech, 'detail': d})

        # (1) no NEW orphan: a payload that had an info still has it, and
        # nothing new sits under files/ without an info of its own name
        for e in ents:
            ik, pk = trashworld.pair_keys(e)
            if pk in n1 and ik not in n1:
                viol('payload-stranded-without-info/%s' % cmd, entry=e)
        old_orphans = set(q for q in n0 if putcheck.is_payload_root(q) and
                          putcheck.info_for_payload(q) not in n0)
        for q in n1:
            if putcheck.is_payload_root(q) and q not in old_orphans and \
                    putcheck.info_for_payload(q) not in n1 and \
                    any(q.startswith(t + '/') for t in case['trashes']) and \
                    not any(q == trashworld.pair_keys(e)[1] for e in ents):
                viol('new-payload-without-info-under-files/%s' % cmd, path=q)
        # (2) an entry being restored is complete somewhere
        if cmd == 'restore':
            for e in ents:
                ik, pk = trashworld.pair_keys(e)
                pay0 = snap.subtree(n0, pk)
                in_trash = snap.subtree(n1, pk) == pay0
                at_dest = same_payload(snap.subtree(n1, e['loc']), pay0) or \
                    same_payload(snap.subtree(n1, e['loc'] + '/' + e['name']), pay0)
                # (onto an existing directory shutil.move() puts the entry
                # INSIDE it, under the payload's name)
                if not in_trash and not at_dest:
                    viol('restored-entry-complete-nowhere', entry=e,
                         trash=snap.fmt_diff(snap.sig_diff(pay0, snap.subtree(n1, pk)), 4),
                         dest=snap.fmt_diff(snap.sig_diff(pay0, snap.subtree(n1, e['loc'])), 4))
        # (3) re-run to completion
        if cmd == 'restore':
            # (3a) the recovery a user performs after an interrupted restore:
            # trash-restore again, this time with --overwrite, taking
            # everything that is still listed.  A payload must not lose its
            # .trashinfo to it and the entry must stay complete somewhere
            # (a move that left two names of one inode behind turns the
            # rename of the re-run into a no-op that still drops the info)
            ow = args if '--overwrite' in args else args + ['--overwrite']
            rl = run.run(wk, 'restore', ow, stdin=b'', cwd=wk.R)
            nl = len(trashio.parse_restore_listing(rl.outtext()))
            if nl:
                r3 = run.run(wk, 'restore', ow, cwd=wk.R,
                             stdin=('0-%d\n' % (nl - 1)).encode())
                n3 = putcheck.norm_sig(wk.snapshot())
                obs['recovery_reruns_with_overwrite'] = \
                    obs.get('recovery_reruns_with_overwrite', 0) + 1
                for e in ents:
                    ik, pk = trashworld.pair_keys(e)
                    if pk in n3 and ik not in n3:
                        viol('payload-stranded-without-info/restore-rerun-overwrite',
                             entry=e, rerun=r3.brief())
                    if e.get('no_payload'):
                        continue
                    pay0 = snap.subtree(n0, pk)
                    d3 = snap.subtree(n3, e['loc'])
                    # (complete at its place before the re-run, and the
                    # re-run only moved the rest of a half-deleted payload
                    # inside it: still complete there)
                    kept = same_payload(snap.subtree(n1, e['loc']), pay0) and \
                        all(k in d3 and (k == '' or same_payload({'': d3[k]}, {'': v}))
                            for k, v in pay0.items())
                    if not (kept or snap.subtree(n3, pk) == pay0 or
                            same_payload(d3, pay0) or
                            same_payload(snap.subtree(n3, e['loc'] + '/' + e['name']), pay0)):
                        viol('restored-entry-complete-nowhere/restore-rerun-overwrite',
                             entry=e, rerun=r3.brief(),
                             dest=snap.fmt_diff(snap.sig_diff(pay0, snap.subtree(n3, e['loc'])), 4))
            r2 = run.run(wk, 'empty', list(case.get('vopt') or []), stdin=b'',
                         env={'TRASH_DATE': '2099-01-01T00:00:00'})
            a2 = wk.snapshot()
            left = [q for q in a2 if (putcheck.is_payload_root(q) or
                                      putcheck.base(putcheck.parent(q)) == 'info')
                    and any(q.startswith(t + '/') for t in case['trashes'])]
            if left:
                viol('leftovers-of-killed-restore-cannot-be-purged',
                     left=left[:6], rerun=r2.brief())
            else:
                obs['reruns_completed'] = obs.get('reruns_completed', 0) + 1
        else:
            r2 = run.run(wk, name, args, stdin=b'')
            a2 = wk.snapshot()
            bad = []
            for e, rs in zip(ents, ref_states):
                st = trashworld.entry_state(a0, a2, e)
                if rs == 'gone' and st != 'gone':
                    bad.append((e['name'], st))
                if rs == 'intact' and st != 'intact':
                    bad.append((e['name'], 'kept-entry-' + st))
            n2 = putcheck.norm_sig(a2)
            left = [q for q in n2 if putcheck.is_payload_root(q) and
                    q not in old_orphans and
                    putcheck.info_for_payload(q) not in n2 and
                    any(q.startswith(t + '/') for t in case['trashes'])]
            if left:
                bad.append(('stranded', left[:4]))
            if bad:
                viol('rerun-does-not-complete-the-purge/%s' % cmd, bad=bad,
                     rerun=r2.brief())
            else:
                obs['reruns_completed'] = obs.get('reruns_completed', 0) + 1

    for k in ks:
        wk, rk, a0, a1 = sc.execute({'crash_before': k})
        try:
            if rk.timeout or rk.exit != 99 or not rk.crash:
                out['verdict'] = 'inconclusive'
                out['why'] = 'crash point %d not reached (exit %s)' % (k, rk.exit)
                return out
            pre = inject.norm_events(rk.events, wk.R)
            if pre != refn[:len(pre)]:
                out['verdict'] = 'inconclusive'
                out['why'] = 'non-deterministic prefix at crash point %d' % k
                return out
            judge_state(wk, rk, a0, a1)
        finally:
            wk.destroy()
        if len(out['violations']) > 3:
            break
        # the catchable kill (SIGINT): KeyboardInterrupt when call k returns
        wk, rk, a0, a1 = sc.execute({'interrupt_after': k})
        try:
            why = (rk.crash or {}).get('why')
            if rk.timeout or why not in ('interrupt-after', 'interrupt-skipped'):
                out['verdict'] = 'inconclusive'
                out['why'] = 'interrupt point %d not reached (exit %s)' % (k, rk.exit)
                return out
            if why == 'interrupt-after':
                obs['interrupt_states'] = obs.get('interrupt_states', 0) + 1
                judge_state(wk, rk, a0, a1)
        finally:
            wk.destroy()
        if len(out['violations']) > 3:
            break
    # ---- a concurrent remover: the entry to be unlinked has just vanished
    # (another trash-empty / trash-rm / a user is at work in the same trash
    # dir): one removal inside a payload answers ENOENT.  Whatever is then
    # left of that payload must keep its .trashinfo
    if cmd != 'restore':
        import errno as _errno
        rem = [e for e in ref.events if e['c'] == 'M' and
               e['op'] in ('unlink', 'rmdir', 'remove')]
        for e in rem[:40]:
            wk, rk, a0, a1 = sc.execute({'faults': {str(e['k']): _errno.ENOENT}})
            try:
                if rk.timeout:
                    continue
                if any(x.get('r') == 'F' for x in rk.events):
                    obs['vanished_entry_states'] = obs.get('vanished_entry_states', 0) + 1
                    judge_state(wk, rk, a0, a1)
            finally:
                wk.destroy()
            if len(out['violations']) > 3:
                break
    # ---- real SIGKILL at random instants (thorough tier)
    import random as _random
    krng = _random.Random(case.get('seed', 1))
    for _ in range(case.get('kills', 0)):
        delay_us = krng.choice([500, 1000, 2000])
        span = len(ks) * delay_us / 1e6
        wk, rk, a0, a1, killed = inject.sigkill_run(sc, delay_us,
                                                    krng.random() * span, krng)
        try:
            obs['sigkills'] = obs.get('sigkills', 0) + 1
            if rk.signal == 9:
                obs['sigkills_landed_mid_run'] = obs.get('sigkills_landed_mid_run', 0) + 1
            judge_state(wk, rk, a0, a1)
        finally:
            wk.destroy()
    obs['distinct_crash_points'] = len(ks)
    out['nontrivial'] = True
    if any(e.get('mountpoint') for e in ents):
        obs['payload_is_a_mount_point'] = 1
        out['replayable'] = False
    out['sample_obs'] = {'cmd': cmd, 'mutating_events': len(ks),
                         'ref_states': ref_states}
    out['verdict'] = 'violation' if out['violations'] else 'ok'
    return out


def same_payload(a, b):
    """equal, tolerating the symlink-mtime loss of a cross-device copy"""
    if a == b:
        return True
    if set(a) != set(b):
        return False
    for k in a:
        x, y = a[k], b[k]
        if x != y and not (x[0] == 'l' and y[0] == 'l' and x[:6] == y[:6]):
            return False
    return True


def extra_evidence(results):
    n = sum((r.get('obs') or {}).get('distinct_crash_points', 0) for r in results)
    return {'crash_points_enumerated': n, 'exhaustive_per_scenario': True}
