"""C04 - a trashed entry is never overwritten: names stay unique, also under
concurrency.  Controlled schedules (preemption-bounded exhaustive + random +
PCT) over the file-system operations of 2-3 real trash-put processes, and
free-running stress."""
import os
import random
import time

from .. import gen, putcheck, run, sched, snap, spec, trashio, world

ID = 'C04'
SCEN = ['first-use', 'existing', 'same-named-1', 'same-named-3',
        'same-named-99', 'same-named-101', 'orphan-payload', 'stale-info',
        'mixed-kinds', 'dir-payload-same-name', 'long-name-orphan',
        'long-name-stale-info', 'same-source']


def config(tier):
    return {
        'level': 'exploration',
        'cases': 64 if tier == 'quick' else 1600,
        'budget_s': 57 if tier == 'quick' else 540,
        'grace_s': 300,
        'floors': {'cases': 20, 'schedules': 1000, 'distinct_interleavings': 600,
                   'contended_schedules': 300, 'actors_finished': 2000,
                   'stress_rounds': 4, 'exhaustive_scenarios': 3,
                   'adaptive_runs': 20},
        'rule': 'case = scenario (first use of the trash dir, existing dir, '
                '1/3/99/101 earlier same-named entries, orphan payload, stale '
                'info, mixed kinds) x mode: (enum) ALL schedules of two '
                'trash-put processes over their visible operations with at '
                'most 2 (thorough: 3) preemptions; (random) seeded random and '
                'PCT schedules of 2-3 processes; (stress) 8-16 free-running '
                'processes with injected delays; (adaptive) one put, then the '
                'same put again in worlds where every name the earlier runs '
                'touched under files/ and info/ (temporary and derived names '
                'included) already belongs to an older entry, file and '
                'directory variants, to a fixpoint of 3 rounds, same-volume / '
                'cross-device fallback / --trash-dir layouts; non-trivial = two actors '
                'competed for the same candidate name (EEXIST on the exclusive '
                'create or an existing payload skipped); distinct = distinct '
                'interleaving (sequence of granted operations)',
        'assumptions': ['visible operations = mutating calls and stat/lstat '
                        'under the shared trash dir; private operations '
                        'commute', 'kernel serialises each system call'],
    }


def gen_adaptive_case(rng, index, tier):
    """one trash-put, then the same command again in worlds where every name
    the first run touched under files/ and info/ (probed, created, renamed -
    temporary and derived names included) already belongs to an older entry"""
    layout = rng.choice(['same', 'same', 'fallback', 'fallback', 'trash-dir'])
    if layout == 'fallback':
        L = gen.make_layout(rng, volumes=['v1'], home_own_volume=False,
                            xdg='unset', top_states={'v1': 'file'},
                            alt_states={'v1': 'file'}, trash_volumes_env=False,
                            uid=rng.choice([0, 1000]))
        base, tdir = 'v1', L.home_trash()
        opts = ['--home-fallback']
        L.env['TRASH_ENABLE_HOME_FALLBACK'] = '1'
    else:
        L = gen.make_layout(rng, volumes=['v1'], home_own_volume=False,
                            xdg='unset', top_states={}, alt_states={},
                            trash_volumes_env=False, uid=rng.choice([0, 1000]))
        where = rng.choice(['home', 'alt'])
        base = L.home if where == 'home' else 'v1'
        tdir = L.home_trash() if where == 'home' else 'v1/.Trash-%d' % L.uid
        opts = []
        if layout == 'trash-dir':
            tdir = base + '/my trash'
            opts = ['--trash-dir', '@/' + tdir]
    name = rng.choice(['foo', 'a b', 'x.txt', 'é', 'n' * 250, 'report.partial',
                       '.hidden', 'x.trashinfo'])
    kind = rng.choice(['file', 'tree', 'link_dangling', 'dir_empty'])
    d = base + '/src0'
    L.add({'p': d, 't': 'd'})
    L.add(gen.entry_nodes(rng, d + '/' + name, kind, 'c%dadaptive' % index))
    if rng.random() < 0.7:
        L.add(world.ensure_trash_dirs(tdir))
    if rng.random() < 0.25 and len(name) < 100:
        # the name and its 99 numbered variants are taken: the run is in the
        # random-suffix phase (deterministic here: the RNG is seeded)
        L.add(world.ensure_trash_dirs(tdir))
        for j in range(100):
            nmj = name if j == 0 else '%s_%d' % (name, j)
            L.add(world.trash_nodes(
                tdir, nmj, world.trashinfo_text('crowd/%d' % j, '2003-03-03T03:03:03'),
                [{'p': '', 't': 'f', 'c': 'crowd %d' % j}]))
    case = L.desc()
    case['scen'] = 'adaptive-' + layout
    case['mode'] = 'adaptive'
    case['actors'] = [{'dir': d, 'rel': d + '/' + name, 'kind': kind}]
    case['tdir'] = tdir
    case['name'] = name
    case['opts'] = opts
    case['seed'] = rng.getrandbits(30)
    case['rounds'] = 3
    return case


def touched_names(events, w, s1):
    """{trash dir (rel): set of entry names} for every path the run named
    directly under <trash dir>/files/ or <trash dir>/info/"""
    out = {}
    for e in events:
        for pth in e.get('p') or []:
            if not isinstance(pth, str):
                continue
            rel = w.rel(pth)
            if rel is None:
                continue
            parts = rel.split('/')
            for i in range(len(parts) - 2, 0, -1):
                if parts[i] in ('files', 'info'):
                    td = '/'.join(parts[:i])
                    if td + '/files' in s1 and td + '/info' in s1:
                        nm = parts[i + 1]
                        if parts[i] == 'info':
                            if not nm.endswith('.trashinfo'):
                                break
                            nm = nm[:-len('.trashinfo')]
                        if nm:
                            out.setdefault(td, set()).add(nm)
                    break
    return out


def run_adaptive(case):
    out = {'violations': [], 'obs': {}, 'features': [
        'scen:' + case['scen'], 'mode:adaptive', 'actors:1']}
    obs = out['obs']
    a = case['actors'][0]
    base_have = set(nd['p'] for nd in case['nodes'])
    planted = {}       # every name a run touched
    unreserved = {}    # ... except those the run reserved by creating info/<name>.trashinfo itself
    for rnd in range(case['rounds'] + 1):
        if rnd == 0:
            variants = [('none', 'all')]
        else:
            variants = [('file', 'all'), ('dir', 'all'), ('orphan', 'all')]
            if any(unreserved.values()):
                variants = [('file', 'unreserved'), ('dir', 'unreserved')] + variants
        touched_now = []
        for variant, which in variants:
            src = planted if which == 'all' else unreserved
            nodes = list(case['nodes'])
            for td in sorted(src):
                if src[td]:
                    nodes += world.ensure_trash_dirs(td)
                for j, nm in enumerate(sorted(src[td])):
                    if len((nm + '.trashinfo').encode('utf-8', 'surrogateescape')) > 255:
                        continue
                    if (td + '/files/' + nm) in base_have or \
                            (td + '/info/' + nm + '.trashinfo') in base_have:
                        continue          # taken in the base world already
                    pay = [{'p': '', 't': 'f', 'c': 'older payload %d' % j}] \
                        if variant in ('file', 'orphan') else \
                        [{'p': '', 't': 'd', 'm': 0o755},
                         {'p': 'inner', 't': 'f', 'c': 'inner of older dir %d' % j}]
                    # 'orphan': a payload whose .trashinfo is gone - still not
                    # a free name
                    nodes += world.trash_nodes(
                        td, nm, None if variant == 'orphan' else
                        world.trashinfo_text('older/%d' % j, '2001-01-01T00:00:00'),
                        pay)
            desc = dict(case)
            desc['nodes'] = nodes
            with world.World(desc) as w:
                s0 = w.snapshot()
                argv = [world.subst(o, w.R) for o in case['opts']] + \
                    ['--', os.path.basename(a['rel'])]
                r = run.run(w, 'put', argv, stdin=b'', cwd=w.abs(a['dir']),
                            plan={'random_seed': case['seed'],
                                  'put_clock': '2022-02-02T02:02:02'})
                s1 = w.snapshot()
                obs['adaptive_runs'] = obs.get('adaptive_runs', 0) + 1
                if r.timeout or r.audit_ok() is False:
                    out['verdict'] = 'inconclusive'
                    out['why'] = 'watchdog' if r.timeout else 'audit mismatch'
                    return out
                if rnd:
                    obs['contended_schedules'] = obs.get('contended_schedules', 0) + 1
                if which == 'unreserved':
                    obs['adaptive_unreserved_runs'] = obs.get('adaptive_unreserved_runs', 0) + 1
                judge(case, w, s0, s1, [r], out,
                      'adaptive round %d: older %s entries at %s names %s' % (
                          rnd, variant, which,
                          sorted((k, sorted(v)) for k, v in src.items())), [])
                n1 = putcheck.norm_sig(s1)
                t = touched_names(r.events, w, n1)
                res = set(k for k in n1 if putcheck.is_info(k) and k not in s0)
                touched_now.append((t, res))
            if out['violations']:
                break
        if out['violations']:
            break
        for t, res in touched_now:
            for td, names in t.items():
                planted.setdefault(td, set()).update(names)
                mine = set(putcheck.base(k)[:-len('.trashinfo')] for k in res
                           if putcheck.trash_of(k) == td)
                unreserved.setdefault(td, set()).update(names - mine)
        # names that were unreserved in one run but reserved in another are
        # ordinary candidates: keep them out of the unreserved set
        obs['adaptive_names_planted'] = sum(len(v) for v in planted.values())
    if any(unreserved.values()):
        obs['adaptive_unreserved_names'] = sum(len(v) for v in unreserved.values())
    out['nontrivial'] = True
    out['sample_obs'] = {'planted': sorted((k, sorted(v)[:6]) for k, v in planted.items()),
                         'unreserved': sorted((k, sorted(v)[:6]) for k, v in unreserved.items())}
    out['verdict'] = 'violation' if out['violations'] else 'ok'
    return out


def gen_case(rng, index, tier):
    if index % 3 == 2 and index >= len(SCEN):
        return gen_adaptive_case(rng, index, tier)
    scen = SCEN[index % len(SCEN)] if index < 2 * len(SCEN) else rng.choice(SCEN)
    mode = ['enum', 'random', 'random', 'stress'][index % 4] if index >= len(SCEN) \
        else 'enum'
    nact = 2 if mode == 'enum' else rng.choice([2, 2, 3]) if mode == 'random' \
        else rng.choice([8, 12, 16])
    where = rng.choice(['home', 'alt'])
    L = gen.make_layout(rng, volumes=['v1'], home_own_volume=False, xdg='unset',
                        top_states={}, alt_states={}, trash_volumes_env=False,
                        uid=rng.choice([0, 1000]))
    base = L.home if where == 'home' else 'v1'
    tdir = L.home_trash() if where == 'home' else 'v1/.Trash-%d' % L.uid
    name = rng.choice(['foo', 'a b', 'x.txt', 'é'])
    if scen.startswith('long-name'):
        # name + '.trashinfo' exceeds NAME_MAX: trash-put shortens the name
        name = rng.choice(['n', 'é', 'ab']) * 300
        while len(name.encode()) > rng.choice([250, 255, 247]):
            name = name[:-1]
    kinds = ['file'] * nact
    if scen == 'mixed-kinds':
        kinds = [rng.choice(['file', 'dir_empty', 'link_dangling', 'tree'])
                 for _ in range(nact)]
    elif scen == 'dir-payload-same-name':
        kinds = [rng.choice(['tree', 'dir_empty']) for _ in range(nact)]
    actors = []
    for i in range(nact):
        d = '%s/src%d' % (base, i)
        if scen == 'same-source':
            # every process is asked to trash the SAME file: one wins, the
            # others must fail cleanly
            d = '%s/src0' % base
            if i:
                actors.append(dict(actors[0]))
                continue
        L.add({'p': d, 't': 'd'})
        L.add(gen.entry_nodes(rng, d + '/' + name, kinds[i],
                              'c%dactor%d' % (index, i)))
        actors.append({'dir': d, 'rel': d + '/' + name, 'kind': kinds[i]})
    if scen != 'first-use':
        L.add(world.ensure_trash_dirs(tdir))
    case_nrandom = None
    if scen.startswith('long-name') and mode == 'enum':
        mode = 'random'
    nold = {'same-named-1': 1, 'same-named-3': 3, 'same-named-99': 99,
            'same-named-101': 101}.get(scen, 0)
    for j in range(nold):
        nm = name if j == 0 else '%s_%d' % (name, j) if j < 100 else \
            '%s_%d' % (name, 40000 + j)
        L.add(world.trash_nodes(
            tdir, nm, world.trashinfo_text('old/%d' % j, '2001-01-01T00:00:00'),
            [{'p': '', 't': 'f', 'c': 'old payload %d' % j}]))
    if scen.startswith('long-name'):
        L.add(world.ensure_trash_dirs(tdir))
        from . import c01 as _c01
        for nm2 in _c01.trash_names(name)[:]:
            if scen == 'long-name-orphan':
                L.add({'p': tdir + '/files/' + nm2, 't': 'f',
                       'c': 'old orphan under a shortened name'})
            elif len((nm2 + '.trashinfo').encode()) <= 255:
                L.add({'p': tdir + '/info/' + nm2 + '.trashinfo', 't': 'f',
                       'c': world.trashinfo_text('stale', '2001-01-01T00:00:00')})
    if scen == 'orphan-payload':
        if rng.random() < 0.4:
            # an orphan that exists() does not see
            L.add({'p': tdir + '/files/' + name, 't': 'l', 'to': 'nowhere'})
        else:
            L.add({'p': tdir + '/files/' + name, 't': 'f', 'c': 'old orphan'})
    if scen == 'stale-info':
        L.add({'p': tdir + '/info/' + name + '.trashinfo', 't': 'f',
               'c': world.trashinfo_text('stale', '2001-01-01T00:00:00')})
    if scen == 'dir-payload-same-name':
        # an old trashed DIRECTORY with the same name: nothing may move inside
        L.add(world.trash_nodes(
            tdir, name, world.trashinfo_text('olddir', '2001-01-01T00:00:00'),
            [{'p': '', 't': 'd', 'm': 0o755},
             {'p': 'inner', 't': 'f', 'c': 'inner of old dir'}]))
    case = L.desc()
    case['scen'] = scen
    case['mode'] = mode
    tier_ = tier
    case['actors'] = actors
    case['tdir'] = tdir
    case['name'] = name
    # thorough: every other enumeration keeps the bound at which the space is
    # usually exhausted within max_enum; the others go one preemption deeper
    case['bound'] = 2 if (tier == 'quick' or index % 2 == 0) else 3
    case['nrandom'] = 30 if tier == 'quick' else 150
    if scen in ('same-named-99', 'same-named-101'):
        # ~100 probes per actor: exhaustive enumeration is out of budget,
        # sample instead (the suffix logic past _99 is what matters here)
        if mode == 'enum':
            case['mode'] = 'random'
        case['nrandom'] = 6 if tier == 'quick' else 40
    case['rounds'] = 2 if tier == 'quick' else 6
    case['max_enum'] = 400 if tier == 'quick' else 2000
    case['seed'] = rng.getrandbits(30)
    return case


def judge(case, w, s0, s1, results, out, label, trace):
    obs = out['obs']
    n0 = putcheck.norm_sig(s0)
    n1 = putcheck.norm_sig(s1)
    tdir = case['tdir']

    def viol(mech, **kw):
        d = {'schedule': label, 'scen': case['scen'],
             'trace': ['%d:%s' % t for t in trace][:80],
             'exits': [r.exit for r in results],
             'stderr': [r.errtext()[-300:] for r in results if r.exit]}
        d.update(kw)
        out['violations'].append({'mechanism': mech, 'detail': d})
        return False

    ok = True
    same = case['scen'] == 'same-source'
    for i, r in enumerate(results):
        obs['actors_finished'] = obs.get('actors_finished', 0) + 1
        if r.timeout:
            out.setdefault('incon', []).append('watchdog actor %d' % i)
            return True
        if r.exit != 0 and not same:
            ok = viol('actor-failed/%s' % case['scen'], actor=i)
    if same:
        return judge_same_source(case, w, n0, n1, results, out, viol)
    # pre-existing trash content byte-identical
    old = [k for k in n0 if k.startswith(tdir + '/files/') or
           k.startswith(tdir + '/info/')]
    for k in old:
        if n1.get(k) != n0[k]:
            # a directory's mtime may move only if its child set changed -
            # which it must not (nothing may be moved inside)
            ok = viol('pre-existing-trash-content-changed/%s' % case['scen'],
                      path=k, before=snap.fmt_entry(n0[k]),
                      after=snap.fmt_entry(n1.get(k)))
            break
    # nothing new inside a pre-existing payload directory
    for k in n1:
        if k not in n0 and k.startswith(tdir + '/files/'):
            root = tdir + '/files/' + k[len(tdir + '/files/'):].split('/')[0]
            if root in n0 and k != root:
                ok = viol('moved-inside-an-existing-payload/%s' % case['scen'], path=k)
                break
    # one new complete pair per actor, payloads = the trashed entries
    new_roots = [k for k in n1 if putcheck.is_payload_root(k) and k not in n0
                 and k.startswith(tdir + '/')]
    new_infos = [k for k in n1 if putcheck.is_info(k) and k not in n0]
    def sub(sig, key):
        t = snap.subtree(sig, key)
        if case['scen'] == 'adaptive-fallback':
            # copied across volumes: symlinks come with a fresh mtime (the
            # known C01 finding); names and pairing are what C04 judges
            t = dict((k, (v[:6] + (None,)) if v[0] == 'l' else v)
                     for k, v in t.items())
        return t
    sigs = [sub(n0, a['rel']) for a in case['actors']]
    got = [sub(n1, q) for q in new_roots]
    nsucc = sum(1 for r in results if r.exit == 0)
    if len(new_roots) != len(case['actors']) or \
            sorted(repr(sorted(g.items())) for g in got) != \
            sorted(repr(sorted(x.items())) for x in sigs):
        if nsucc == len(case['actors']):
            ok = viol('payloads-differ-from-trashed-entries/%s' % case['scen'],
                      new=new_roots, expected=len(case['actors']))
    names = [putcheck.base(q) for q in new_roots]
    if len(set(names)) != len(names):
        ok = viol('duplicate-names', names=names)
    for q in new_roots:
        ik = putcheck.info_for_payload(q)
        if ik not in n1 or ik in n0:
            ok = viol('payload-without-own-new-info/%s' % case['scen'], payload=q)
            continue
        data = trashio.read_info(w.abs(ik))
        vol = spec.volume_of(os.path.realpath(w.abs(tdir)), w.mounts)
        loc, pi = trashio.info_location(data, w.abs(tdir), vol, None)
        sig = sub(n1, q)
        owners = [a for a, s in zip(case['actors'], sigs) if s == sig]
        if not owners or loc not in [w.abs(a['rel']) for a in owners]:
            ok = viol('info-does-not-describe-its-payload/%s' % case['scen'],
                      payload=q, recorded=loc)
    if len(new_infos) != len(new_roots):
        ok = viol('stray-or-missing-info/%s' % case['scen'],
                  infos=new_infos, payloads=new_roots)
    for a in case['actors']:
        if a['rel'] in n1 and nsucc == len(case['actors']):
            ok = viol('source-still-present/%s' % case['scen'], src=a['rel'])
    return ok


def judge_same_source(case, w, n0, n1, results, out, viol):
    """several processes asked to trash one and the same file: exactly one
    complete new pair describing it, as many successes as pairs, source gone,
    nothing older touched, no stray info, no payload without info"""
    tdir = case['tdir']
    ok = True
    for k in n0:
        if (k.startswith(tdir + '/files/') or k.startswith(tdir + '/info/')) and \
                n1.get(k) != n0[k]:
            ok = viol('pre-existing-trash-content-changed/same-source', path=k)
            break
    src = case['actors'][0]['rel']
    sig = snap.subtree(n0, src)
    new_roots = [k for k in n1 if putcheck.is_payload_root(k) and k not in n0]
    new_infos = [k for k in n1 if putcheck.is_info(k) and k not in n0]
    nsucc = sum(1 for r in results if r.exit == 0)
    if src in n1:
        if new_roots or new_infos or nsucc:
            ok = viol('same-source:source-still-there-but-trash-changed',
                      roots=new_roots, infos=new_infos, successes=nsucc)
        return ok
    good = [q for q in new_roots if snap.subtree(n1, q) == sig and
            putcheck.info_for_payload(q) in new_infos]
    if len(good) != 1 or len(new_roots) != 1:
        ok = viol('same-source:not-exactly-one-complete-entry',
                  roots=new_roots, infos=new_infos)
    if len(new_infos) != len(new_roots):
        ok = viol('same-source:stray-or-missing-info', roots=new_roots, infos=new_infos)
    if nsucc != 1:
        ok = viol('same-source:%d-successes-for-one-file' % nsucc)
    return ok


def contention(results):
    n = 0
    for r in results:
        for e in r.events:
            if e['op'] == 'open' and e.get('r') == 'E' and e.get('e') == 17:
                n += 1
    return n


def one_schedule(case, policy, label, out, seen):
    obs = out['obs']
    with world.World(case) as w:
        s0 = w.snapshot()
        spec_a = [{'args': ['--', os.path.basename(a['rel'])], 'cwd': w.abs(a['dir']),
                   'plan': {'random_seed': case['seed'] + i,
                            'put_clock': '2022-02-02T02:02:0%d' % i}}
                  for i, a in enumerate(case['actors'])]
        results, trace, err = sched.run_schedule(
            w, spec_a, w.abs(case['tdir']), policy.choose)
        s1 = w.snapshot()
        obs['schedules'] = obs.get('schedules', 0) + 1
        if err:
            out.setdefault('incon', []).append(err)
            return trace
        key = tuple(trace)
        if key not in seen:
            seen.add(key)
            obs['distinct_interleavings'] = obs.get('distinct_interleavings', 0) + 1
        c = contention(results)
        skipped = sum(1 for r in results for e in r.events
                      if e['op'] == 'stat' and e.get('r') == 'ok' and
                      e['p'][0] and '/files/' in e['p'][0])
        if c or (skipped and case['scen'] != 'first-use'):
            obs['contended_schedules'] = obs.get('contended_schedules', 0) + 1
        obs['eexist_on_exclusive_create'] = obs.get('eexist_on_exclusive_create', 0) + c
        obs['visible_ops_granted'] = obs.get('visible_ops_granted', 0) + len(trace)
        if len(out['violations']) < 3:
            judge(case, w, s0, s1, results, out, label, trace)
        return trace


def stress_round(case, rng, out):
    obs = out['obs']
    with world.World(case) as w:
        s0 = w.snapshot()
        procs = []
        for i, a in enumerate(case['actors']):
            plan = {'delay_us': rng.choice([0, 50, 200, 1000]),
                    'random_seed': rng.getrandbits(20), 'trace_reads': False}
            procs.append(run.run_cmd(w, 'put', ['--', os.path.basename(a['rel'])],
                                     stdin=b'', cwd=w.abs(a['dir']), plan=plan))
        results = [run.finish_cmd(pid, st) for pid, st in procs]
        s1 = w.snapshot()
        obs['stress_rounds'] = obs.get('stress_rounds', 0) + 1
        obs['stress_processes'] = obs.get('stress_processes', 0) + len(procs)
        c = contention(results)
        obs['eexist_on_exclusive_create'] = obs.get('eexist_on_exclusive_create', 0) + c
        if c:
            obs['contended_schedules'] = obs.get('contended_schedules', 0) + 1
        if len(out['violations']) < 3:
            judge(case, w, s0, s1, results, out, 'stress', [])


def run_case(case):
    if case['mode'] == 'adaptive':
        return run_adaptive(case)
    out = {'violations': [], 'obs': {}, 'features': []}
    obs = out['obs']
    rng = random.Random(case['seed'])
    out['features'] += ['scen:' + case['scen'], 'mode:' + case['mode'],
                        'actors:%d' % len(case['actors'])]
    seen = set()
    t0 = time.time()
    if case['mode'] == 'enum':
        ex = sched.Explorer(case['bound'])
        n = 0
        complete = False
        while True:
            ex.start_run()
            one_schedule(case, ex, 'enum #%d prefix=%s' % (n, ex.prefix), out, seen)
            n += 1
            if not ex.next():
                complete = True
                break
            if n >= case['max_enum'] or out['violations'] or out.get('incon'):
                break
        if complete:
            obs['exhaustive_scenarios'] = 1
        obs['enum_schedules'] = n
        out['sample_obs'] = {'enumerated': n, 'complete': complete,
                             'bound': case['bound']}
    elif case['mode'] == 'random':
        for j in range(case['nrandom']):
            if j % 3 == 2:
                pol = sched.PCTPolicy(rng, len(case['actors']), depth=rng.choice([1, 2, 3]))
                label = 'pct #%d' % j
            else:
                pol = sched.RandomPolicy(rng, rng.choice([0.2, 0.5, 0.8]))
                label = 'random #%d' % j
            tr = one_schedule(case, pol, label, out, seen)
            if out['violations'] or out.get('incon'):
                break
        out['sample_obs'] = {'random_schedules': case['nrandom'],
                             'example': ['%d:%s' % t for t in (tr or [])][:30]}
    else:
        for j in range(case['rounds']):
            stress_round(case, rng, out)
            if out['violations']:
                break
        out['sample_obs'] = {'stress_rounds': case['rounds'],
                             'processes': len(case['actors'])}
    if out.get('incon'):
        out['verdict'] = 'inconclusive'
        out['why'] = '; '.join(out['incon'][:3])
        return out
    out['nontrivial'] = obs.get('contended_schedules', 0) > 0
    out['verdict'] = 'violation' if out['violations'] else 'ok'
    return out


def extra_evidence(results):
    ex = [r for r in results if (r.get('obs') or {}).get('exhaustive_scenarios')]
    return {'scenarios_enumerated_exhaustively_up_to_preemption_bound': len(ex),
            'distinct_nontrivial_note': 'distinct_nontrivial counts cases with '
            'contention; observed.distinct_interleavings counts distinct '
            'operation interleavings executed'}
