"""C08 - an insecure shared $topdir/.Trash is never used, for writing,
reading or purging, by any of the five commands."""
import os

from .. import gen, putcheck, run, sched, snap, spec, trashgen, trashio, trashworld, world

ID = 'C08'

STATES = ['sticky', 'nonsticky', 'link_sticky', 'link_nonsticky', 'file',
          'absent']
CMDS = ['put', 'list', 'restore', 'empty', 'empty-days', 'rm', 'put2-toggle']


def config(tier):
    return {
        'level': 'exploration',
        'cold_sample': 4 if tier == 'quick' else 30,
        'real_sample': 6 if tier == 'quick' else 40,
        'cases': 3000 if tier == 'quick' else 40000,
        'budget_s': 50 if tier == 'quick' else 560,
        'floors': {'cases': 150, 'insecure_cmd_runs': 400,
                   'secure_cmd_runs': 80, 'canary_subtrees_compared': 400,
                   'secure_used': 60},
        'rule': 'case = volume layout x state of $topdir/.Trash (sticky dir, '
                'non-sticky dir, symlink to sticky/non-sticky dir, regular '
                'file, absent) x populated .Trash/$uid with canary entries x '
                'one of the commands put/list/restore/empty/empty DAYS/rm; '
                'non-trivial = .Trash/$uid exists and is populated',
        'assumptions': ['virtual mount table'],
    }


def gen_dotdot_case(rng, index, tier):
    """the volume is named through '<symlink>/..': the kernel goes to the
    parent of the link's TARGET (y/v1, whose .Trash is sticky); the lexical
    reading lands on x/v1, whose .Trash is NOT sticky and holds canaries.
    Rule and reading must concern the same directory"""
    L = gen.make_layout(rng, volumes=[], xdg='unset', top_states={},
                        alt_states={}, trash_volumes_env=False, uid=rng.choice([0, 1000]))
    uid = L.uid
    L.add({'p': 'y/sub', 't': 'd'})
    L.add({'p': 'x', 't': 'd'})
    L.add({'p': 'x/lk', 't': 'l', 'to': '@/y/sub'})
    L.add({'p': 'y/v1/.Trash', 't': 'd', 'm': 0o1777})
    L.add({'p': 'x/v1/.Trash', 't': 'd', 'm': rng.choice([0o777, 0o755, 0o2777])})
    secure, canaries = [], []
    for i in range(rng.randint(1, 3)):
        secure.append(trashgen.add_trashed(
            L, rng, 'y/v1/.Trash/%d' % uid, 'good%d' % i, 'y/v1/docs/good-%d' % i,
            '2001-02-03T04:05:0%d' % i, rng.choice(['file', 'tree']),
            'sec%d_%d' % (index, i), volume_rel='y/v1'))
        canaries.append(trashgen.add_trashed(
            L, rng, 'x/v1/.Trash/%d' % uid, 'canary%d' % i, 'x/v1/docs/canary-%d' % i,
            '2001-02-03T04:05:0%d' % i, rng.choice(['file', 'tree']),
            'can%d_%d' % (index, i), volume_rel='x/v1'))
    L.env['TRASH_VOLUMES'] = rng.choice(['@/x/lk/../v1', '@/x/v1:@/x/lk/../v1',
                                         '@/x/lk/../v1:@/x/v1/'])
    L.cwd = L.home
    case = L.desc()
    case['kind'] = 'dotdot-volume'
    case['cmd'] = rng.choice(['list', 'empty', 'empty-days', 'rm', 'empty-dry'])
    case['secure'] = secure
    case['canaries'] = canaries
    return case


def run_dotdot(case):
    out = {'violations': [], 'obs': {}, 'features': ['dotdot-volume', 'cmd:' + case['cmd']]}
    obs = out['obs']
    cmd = case['cmd']
    with world.World(case) as w:
        s0 = w.snapshot()
        argv = {'list': ('list', []), 'empty': ('empty', []),
                'empty-days': ('empty', ['1']), 'rm': ('rm', ['*']),
                'empty-dry': ('empty', ['--dry-run'])}[cmd]
        r = run.run(w, argv[0], argv[1], stdin=b'')
        s1 = w.snapshot()
        if r.timeout or r.audit_ok() is False:
            out['verdict'] = 'inconclusive'
            out['why'] = 'watchdog' if r.timeout else 'audit mismatch'
            return out
        obs['insecure_cmd_runs'] = 1
        obs['dotdot_volume_runs'] = 1
        text = r.outtext() + r.errtext()
        for c in case['canaries']:
            obs['canary_subtrees_compared'] = obs.get('canary_subtrees_compared', 0) + 1
            if trashworld.entry_state(s0, s1, c) != 'intact':
                out['violations'].append({
                    'mechanism': 'insecure-trash-modified/dotdot-volume/' + cmd,
                    'detail': {'run': r.brief(), 'canary': c['name']}})
                break
            if 'canary-' in r.outtext():
                out['violations'].append({
                    'mechanism': 'insecure-trash-content-shown/dotdot-volume/' + cmd,
                    'detail': {'run': r.brief()}})
                break
        # the directory the kernel resolves the name to is secure: it is used
        for e in case['secure']:
            st = trashworld.entry_state(s0, s1, e)
            if cmd in ('empty', 'empty-days', 'rm') and st != 'gone':
                out['violations'].append({
                    'mechanism': 'secure-trash-not-used/dotdot-volume/' + cmd,
                    'detail': {'run': r.brief(), 'entry': e['name'], 'state': st}})
                break
            if cmd in ('list', 'empty-dry') and ('good' not in r.outtext()):
                out['violations'].append({
                    'mechanism': 'secure-trash-not-used/dotdot-volume/' + cmd,
                    'detail': {'run': r.brief()}})
                break
        else:
            obs['secure_used'] = 1
            obs['secure_cmd_runs'] = 1
    out['nontrivial'] = True
    out['verdict'] = 'violation' if out['violations'] else 'ok'
    return out


def gen_case(rng, index, tier):
    if index % 25 == 13:
        return gen_dotdot_case(rng, index, tier)
    vols = rng.choice([['v1'], ['v1'], ['v1', 'v2'], ['v1', 'v1/nested']])
    state = rng.choice(STATES)
    tv = rng.choice(vols + ([''] if rng.random() < 0.2 else []))
    L = gen.make_layout(rng, volumes=vols, xdg='unset',
                        top_states={}, alt_states={},
                        trash_volumes_env=rng.random() < 0.4)
    uid = L.uid
    if tv and rng.random() < 0.2:
        # the volume is mounted read-only (as statvfs reports it): what was
        # planted before it was mounted is as untrustworthy as ever
        L.extra['ro_volumes_rel'] = [tv]
    top = L.vol_path(tv, '.Trash')
    realtop = top
    if state == 'sticky':
        L.add({'p': top, 't': 'd', 'm': rng.choice([0o1777, 0o1777, 0o1777, 0o1770,
                                                    0o3777, 0o1700, 0o7777])})
    elif state == 'nonsticky':
        # the sticky bit itself decides, whatever other special bits are set
        L.add({'p': top, 't': 'd', 'm': rng.choice([0o777, 0o755, 0o700, 0o2777,
                                                    0o2775, 0o4755, 0o6777,
                                                    0o0777, 0o2770])})
    elif state in ('link_sticky', 'link_nonsticky'):
        realtop = L.vol_path(tv, 'shared')
        L.add({'p': realtop, 't': 'd',
               'm': 0o1777 if state == 'link_sticky' else 0o777})
        L.add({'p': top, 't': 'l', 'to': rng.choice(['shared', '@/' + realtop])})
    elif state == 'file':
        L.add({'p': top, 't': 'f', 'c': 'file'})
    canaries = []
    populated = state in ('sticky', 'nonsticky', 'link_sticky', 'link_nonsticky')
    if populated:
        udir = realtop + '/%d' % uid
        for i in range(rng.randint(1, 3)):
            nm = 'canary-%d-%d' % (index, i)
            loc = L.vol_path(tv, 'docs/' + nm)
            e = trashgen.add_trashed(L, rng, udir, nm, loc,
                                     '2001-02-03T04:05:0%d' % i,
                                     rng.choice(['file', 'tree', 'empty']),
                                     'can%d_%d' % (index, i), volume_rel=tv)
            e['trash_visible'] = top + '/%d' % uid
            canaries.append(e)
        if rng.random() < 0.5:
            # ... and payloads without .trashinfo (orphans): they are as much
            # somebody else's as the rest of an insecure directory
            L.add({'p': udir + '/files/orphan-%d' % index, 't': 'f', 'c': 'orphan'})
            L.add({'p': udir + '/files/orphan-dir-%d' % index, 't': 'd'})
            L.add({'p': udir + '/files/orphan-dir-%d/inner' % index, 't': 'f', 'c': 'x'})
    # a normal entry in .Trash-$uid of the same volume and one in the home trash
    alt = L.vol_path(tv, '.Trash-%d' % uid)
    normal = []
    if rng.random() < 0.7:
        normal.append(trashgen.add_trashed(
            L, rng, alt, 'plain', L.vol_path(tv, 'docs/plain-%d' % index),
            '2002-02-02T02:02:02', 'file', 'pl%d' % index, volume_rel=tv))
    ht = L.home_trash()
    normal.append(trashgen.add_trashed(
        L, rng, ht, 'homeentry', L.home + '/docs/home-%d' % index,
        '2003-03-03T03:03:03', 'file', 'he%d' % index, home=True,
        volume_rel='home' if 'home' in L.mounts else ''))
    # the file trash-put will be asked to trash, on the volume under test
    L.add({'p': L.vol_path(tv, 'work'), 't': 'd'})
    L.add(gen.entry_nodes(rng, L.vol_path(tv, 'work/victim'), 'file',
                          'victim%d' % index))
    L.add(gen.entry_nodes(rng, L.vol_path(tv, 'work/victim2'), 'file',
                          'victim2-%d' % index))
    L.cwd = L.vol_path(tv, 'work')
    case = L.desc()
    case['state'] = state
    case['tv'] = tv
    case['top'] = top
    case['realtop'] = realtop
    case['canaries'] = canaries
    case['normal'] = normal
    case['cmd'] = rng.choice(CMDS)
    # every mode of the purging / listing commands goes through the same rule
    xo, xi = [], ''
    if case['cmd'] in ('empty', 'empty-days'):
        v = rng.choice(['plain', 'plain', '-i-yes', '-i-yes', '--interactive-Y',
                        '-v', '-f', '-vv', '-i-no'])
        if v.startswith('-i') or v.startswith('--interactive'):
            xo = ['--interactive'] if v.startswith('--') else ['-i']
            xi = {'yes': 'y\n', 'Y': 'Y\n', 'no': 'n\n'}[v.rsplit('-', 1)[1]]
        elif v != 'plain':
            xo = [v]
    if case['cmd'] in ('empty', 'empty-days', 'list') and rng.random() < 0.25:
        # every account's trash directories: the rule is applied per user, and
        # the first account of the database has no directory on the volume
        xo = xo + ['--all-users']
        first = 0 if L.uid != 0 else 1
        case['passwd'] = [['first', first, '@/nonexistent'],
                          ['me', L.uid, '@/' + L.home]]
        if rng.random() < 0.5:
            case['passwd'].append(['last', 4105, '@/nonexistent'])
    if case['cmd'] in ('empty', 'empty-days', 'list') and state != 'sticky' \
            and tv and '--all-users' not in xo and rng.random() < 0.15:
        # --trash-dir naming the volume's top directory itself (not a trash
        # directory): whatever that selects, it is not the insecure $uid dir
        xo = xo + ['--trash-dir', '@/' + tv]
        case['trash_dir_is_topdir'] = True
    case['xopts'] = xo
    case['xstdin'] = xi
    if case['cmd'] == 'put2-toggle' and (state != 'sticky' or tv == ''):
        case['cmd'] = 'put'
    case['toggle'] = rng.choice(['unsticky', 'symlink', 'file'])
    case['env'] = dict(case['env'], TRASH_DATE='2020-01-01T00:00:00')
    return case


def toggle_case(case, w, out):
    """.Trash is secure while the first argument is handled and becomes
    insecure (another process: chmod -t / replaced by a symlink / by a file)
    before the second one is: the second must fall through to .Trash-$uid"""
    obs = out['obs']
    uid = case['uid']
    top = w.abs(case['top'])
    state = {'done': False}

    def choose(step, enabled, last, reqs):
        req = reqs[enabled[0]]
        # the first payload has been delivered: the next visible operation
        # belongs to the second argument
        if not state['done'] and state.get('renamed'):
            if case['toggle'] == 'unsticky':
                os.chmod(top, 0o755)
            else:
                os.rename(top, top + '.moved-away')
                if case['toggle'] == 'symlink':
                    os.symlink(top + '.moved-away', top)
                else:
                    with open(top, 'w') as f:
                        f.write('now a file')
            state['done'] = True
        if req.startswith('rename '):
            state['renamed'] = True
        return enabled[0]

    s0 = w.snapshot()
    results, trace, err = sched.run_schedule(
        w, [{'args': ['--', 'victim', 'victim2'], 'cwd': w.cwd()}],
        w.abs(case['tv']) if case['tv'] else w.R, choose)
    s1 = w.snapshot()
    r = results[0]
    obs['insecure_cmd_runs'] = 1
    obs['toggle_runs'] = 1
    if err or not state['done']:
        out['verdict'] = 'inconclusive'
        out['why'] = err or 'toggle point not reached'
        return out
    tv = case['tv']
    alt = (tv + '/' if tv else '') + '.Trash-%d' % uid
    moved = case['top'] + '.moved-away' if case['toggle'] != 'unsticky' else case['top']
    in_top = [k for k in s1 if k.startswith(moved + '/%d/files/victim2' % uid)]
    in_alt = (alt + '/files/victim2') in s1 and (alt + '/info/victim2.trashinfo') in s1
    if in_top or not in_alt:
        out['violations'].append({
            'mechanism': 'put-used-insecure-trash-after-it-changed/%s' % case['toggle'],
            'detail': {'run': r.brief(), 'trace': trace[-12:], 'in_top': in_top,
                       'in_alt': in_alt}})
    else:
        obs['put_fell_through'] = 1
    out['nontrivial'] = True
    out['sample_obs'] = {'exit': r.exit, 'toggle': case['toggle'],
                         'stderr': r.errtext()[-200:]}
    out['verdict'] = 'violation' if out['violations'] else 'ok'
    return out


def run_case(case):
    if case.get('kind') == 'dotdot-volume':
        return run_dotdot(case)
    out = {'violations': [], 'obs': {}, 'features': []}
    obs = out['obs']
    state = case['state']
    secure = state == 'sticky'
    cmd = case['cmd']
    uid = case['uid']
    out['features'] += ['state:' + state, 'cmd:' + cmd,
                        'state+cmd:%s/%s' % (state, cmd)]
    with world.World(case) as w:
        s0 = w.snapshot()
        if case.get('passwd'):
            obs['all_users_runs'] = 1
            _pw = {'passwd': [[n, u, world.subst(h, w.R)]
                              for n, u, h in case['passwd']]}
            _run = run.run

            def _run_pw(w_, c_, a_, **kw):
                kw['plan'] = dict(kw.get('plan') or {}, **_pw)
                return _run(w_, c_, a_, **kw)
        exp_put, _ = spec.expected_trash_dirs(
            os.path.join(w.cwd(), 'victim'), w.env(), uid, w.mounts)
        udir_rel = case['realtop'] + '/%d' % uid
        if cmd == 'put2-toggle':
            return toggle_case(case, w, out)
        if cmd == 'put':
            r = run.run(w, 'put', ['victim'], stdin=b'')
        elif cmd == 'restore':
            r0 = run.run(w, 'restore', [], stdin=b'', cwd=w.R)
            lst = trashio.parse_restore_listing(r0.outtext())
            n = len(lst)
            reply = ('0-%d\n' % (n - 1)) if n else '\n'
            r = run.run(w, 'restore', [], stdin=reply.encode(), cwd=w.R)
        elif cmd == 'empty':
            r = (_run_pw if case.get('passwd') else run.run)(w, 'empty', [world.subst(o_, w.R) for o_ in case.get('xopts', [])], stdin=case.get('xstdin', '').encode())
        elif cmd == 'empty-days':
            r = (_run_pw if case.get('passwd') else run.run)(w, 'empty', [world.subst(o_, w.R) for o_ in case.get('xopts', [])] + ['1'],
                        stdin=case.get('xstdin', '').encode())
        elif cmd == 'list':
            r = (_run_pw if case.get('passwd') else run.run)(w, 'list', [world.subst(o_, w.R) for o_ in case.get('xopts', [])], stdin=b'')
        else:
            r = run.run(w, 'rm', [world.subst(o_, w.R) for o_ in case.get('xopts', [])] + ['*'], stdin=b'')
        s1 = w.snapshot()
        if r.timeout or r.audit_ok() is False:
            out['verdict'] = 'inconclusive'
            out['why'] = 'watchdog' if r.timeout else 'audit mismatch'
            return out

        def viol(mech, **kw):
            d = {'run': r.brief(), 'state': state, 'top': case['top']}
            d.update(kw)
            out['violations'].append({'mechanism': mech, 'detail': d})

        sub0 = snap.subtree(putcheck.norm_sig(s0), udir_rel)
        sub1 = snap.subtree(putcheck.norm_sig(s1), udir_rel)
        can_paths = [w.abs(c['loc']) for c in case['canaries']]
        text_out = r.outtext()
        if not secure:
            obs['insecure_cmd_runs'] = 1
            if case['canaries']:
                obs['canary_subtrees_compared'] = 1
                if sub0 != sub1:
                    viol('insecure-trash-modified/%s/%s' % (state, cmd),
                         diff=snap.fmt_diff(snap.diff(sub0, sub1), 6))
                shown = [p for p in can_paths if p in text_out]
                if shown and cmd in ('list', 'restore'):
                    viol('insecure-trash-content-shown/%s/%s' % (state, cmd),
                         shown=shown[:3])
                for c in case['canaries']:
                    if c['loc'] in s1 and c['loc'] not in s0:
                        viol('restored-from-insecure-trash/%s' % state,
                             loc=c['loc'])
            if cmd == 'put':
                alt = case['tv'] + '/.Trash-%d' % uid if case['tv'] else \
                    '.Trash-%d' % uid
                pay = alt + '/files/victim'
                if exp_put and os.path.realpath(exp_put[0]) != os.path.realpath(w.abs(alt)):
                    obs['put_home_trash_prescribed'] = 1
                elif pay not in s1 or (alt + '/info/victim.trashinfo') not in s1:
                    viol('put-did-not-fall-through-to-alt/%s' % state)
                else:
                    obs['put_fell_through'] = 1
            if cmd == 'list' and state in ('nonsticky', 'link_sticky',
                                           'link_nonsticky') and case['canaries'] \
                    and not case.get('trash_dir_is_topdir'):
                vis = w.abs(case['top'] + '/%d' % uid)
                if vis not in r.errtext():
                    viol('list-did-not-report-skipped-dir/%s' % state,
                         want=vis)
                else:
                    obs['skip_reported'] = 1
        else:
            obs['secure_cmd_runs'] = 1
            used = False
            if cmd == 'put':
                used = (udir_rel + '/files/victim') in s1
                if not used and exp_put and \
                        os.path.realpath(exp_put[0]) != os.path.realpath(w.abs(udir_rel)):
                    used = True      # the spec prescribes another dir (home trash on this volume)
            elif cmd in ('list', 'restore'):
                used = all(p in text_out for p in can_paths)
                if cmd == 'restore':
                    used = used and all(c['loc'] in s1 for c in case['canaries'])
            elif cmd in ('empty', 'empty-days', 'rm'):
                declined = bool(case.get('xstdin')) and \
                    not case['xstdin'].lower().startswith('y')
                used = all(trashworld.entry_state(s0, s1, c) ==
                           ('intact' if declined else 'gone')
                           for c in case['canaries'])
            if used:
                obs['secure_used'] = 1
            else:
                viol('secure-trash-not-used/%s' % cmd)
        # entries in ordinary trash dirs keep being handled (sanity: list shows them)
        if cmd == 'list' and not case.get('trash_dir_is_topdir'):
            for e in case['normal']:
                if w.abs(e['loc']) not in text_out:
                    viol('normal-entry-not-listed')
        out['nontrivial'] = bool(case['canaries'])
        out['sample_obs'] = {'exit': r.exit, 'state': state, 'cmd': cmd,
                             'stderr': r.errtext()[-200:]}
    out['verdict'] = 'violation' if out['violations'] else 'ok'
    return out
