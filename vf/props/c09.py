"""C09 - trash-list shows exactly what is in the trash after any history of
commands: online comparison with an executable bag model after every step."""
import datetime
import os

from .. import gen, putcheck, run, snap, spec, trashgen, trashio, world

ID = 'C09'
FMT = '%Y-%m-%dT%H:%M:%S'
T0 = datetime.datetime(2021, 5, 1, 8, 0, 0)

NAMES = ['a', 'b', 'a.txt', 'A', 'foo', 'foo bar', 'é', 'x%y', 'n+1', '-d',
         'q?', 's*r', 'a', 'foo', 'b']


def config(tier):
    return {
        'level': 'exploration',
        'cold_sample': 2 if tier == 'quick' else 10,
        'real_sample': 8 if tier == 'quick' else 40,
        'cases': 450 if tier == 'quick' else 6000,
        'budget_s': 55 if tier == 'quick' else 570,
        'floors': {'cases': 40, 'steps': 500, 'list_comparisons': 500,
                   'disk_comparisons': 500, 'puts_added': 200,
                   'entries_removed_by_restore': 30, 'entries_removed_by_rm': 30,
                   'entries_removed_by_empty': 30},
        'rule': 'case = random history (quick: <= 15 steps, thorough: <= 40) '
                'over 2-3 volumes of put (1-3 args, repeated names, nested '
                'paths, re-created and re-trashed names), restore (random '
                'directory, generated reply, every sort), rm (generated '
                'patterns), empty (no DAYS / DAYS with shifted TRASH_DATE); '
                'after every step trash-list and the on-disk trash are '
                'compared with the bag model; non-trivial = history has a put '
                'and a removing command that selected something',
        'assumptions': ['virtual put clock (shim) and TRASH_DATE are the time',
                        'vf/spec.py decides selection (scope, glob, age)'],
    }


def gen_case(rng, index, tier):
    vols = rng.choice([['v1'], ['v1', 'v2']])
    # v2 may have no usable trash dir at all: entries there reach the trash
    # only through the cross-device home fallback (a copy that can fail)
    v2_unusable = 'v2' in vols and rng.random() < 0.5
    tops = {'v1': rng.choice(['sticky', 'absent'])}
    alts = {}
    if v2_unusable:
        tops['v2'] = 'file'
        alts['v2'] = 'file'
    L = gen.make_layout(rng, volumes=vols, home_own_volume=False, xdg='unset',
                        top_states=tops, alt_states=alts,
                        trash_volumes_env=rng.random() < 0.5)
    dirs = [L.home + '/w', L.home + '/w/sub', 'v1/w', 'v1/w/deep/er']
    if 'v2' in vols:
        dirs.append('v2/w')
    for d in dirs:
        L.add({'p': d, 't': 'd'})
    slots = []
    nslots = rng.randint(4, 9)
    for i in range(nslots):
        d = rng.choice(dirs)
        nm = rng.choice(NAMES)
        if any(s['dir'] == d and s['name'] == nm for s in slots):
            nm = nm + str(i)
        kind = rng.choice(['file', 'file', 'tree', 'empty', 'link_dangling',
                           'link_dir'])
        if v2_unusable and d.startswith('v2/') and rng.random() < 0.3:
            kind = 'tree_fifo'      # cannot be copied across volumes
        slots.append({'dir': d, 'name': nm, 'kind': kind})
        # (a link to a live directory: purged like any other entry, by
        # unlinking the link)
        L.add(gen.entry_nodes(rng, d + '/' + nm, kind, 'c%ds%dg0' % (index, i),
                              link_target='@/home' if kind == 'link_dir' else None))
    # entries already in the trash when the history starts: a volume may hold
    # BOTH $topdir/.Trash/$uid and $topdir/.Trash-$uid
    pre = []
    for v in vols:
        if v == 'v2' and v2_unusable:
            continue
        tds = [v + '/.Trash-%d' % L.uid]
        if L.top_state.get(v) == 'sticky':
            tds.append(v + '/.Trash/%d' % L.uid)
        for td in tds:
            for j in range(rng.choice([0, 0, 1, 2])):
                nm = rng.choice(NAMES) + '-pre%d' % j
                e = trashgen.add_trashed(
                    L, rng, td, 'p%d%s' % (j, rng.choice(['', ' x'])),
                    v + '/w/' + nm, '2020-0%d-1%dT10:00:0%d' % (
                        rng.randint(1, 9), rng.randint(0, 9), j),
                    rng.choice(['file', 'tree', 'empty']),
                    'c%dpre%s%d' % (index, v, j), volume_rel=v)
                pre.append(e)
    nsteps = rng.randint(4, 15 if tier == 'quick' else 40)
    steps = []
    for k in range(nsteps):
        r = rng.random()
        if r < 0.05:
            steps.append({'op': 'mk-top', 'vol': rng.choice(
                [v for v in vols if not (v == 'v2' and v2_unusable)])})
            continue
        if r < 0.35:
            ids = rng.sample(range(nslots), rng.randint(1, min(3, nslots)))
            st = {'op': 'put', 'slots': ids,
                  'spell': rng.choice(['abs', 'rel'])}
            if rng.random() < 0.15:
                st['trash_dir'] = rng.choice(
                    [v for v in vols if not (v == 'v2' and v2_unusable)]) + \
                    '/.Trash-%d' % L.uid
            elif v2_unusable and rng.random() < 0.6:
                st['fb'] = True     # --home-fallback + TRASH_ENABLE_HOME_FALLBACK=1
            steps.append(st)
        elif r < 0.47:
            steps.append({'op': 'recreate', 'slot': rng.randrange(nslots)})
        elif r < 0.65:
            steps.append({'op': 'restore', 'cwd': rng.choice(dirs + ['']),
                          'sort': rng.choice([None, 'date', 'path', 'none']),
                          'reply': rng.choice(['first', 'last', 'all', 'pair',
                                               'invalid', 'empty', 'first',
                                               'middle-list'])})
        elif r < 0.80:
            nm = rng.choice(slots)['name']
            pat = rng.choice([spec.glob_escape(nm), spec.glob_escape(nm[:1]) + '*',
                              '*' + spec.glob_escape(nm[-1:]), '*', '?',
                              'nomatch*', '@/' + rng.choice(dirs) + '/*'])
            steps.append({'op': 'rm', 'pattern': pat})
        else:
            steps.append({'op': 'empty',
                          'days': rng.choice([None, None, 0, 1, 2, 7]),
                          'shift_h': rng.choice([0, 1, 23, 25, 47, 49, 24 * 7 + 1,
                                               -1, -30, 0])})
    case = L.desc()
    case['slots'] = slots
    case['pre'] = pre
    case['steps'] = steps
    case['dirs'] = dirs
    return case


class Model(object):
    def __init__(self):
        self.entries = []        # dicts: loc, date (datetime), trash (abs), sig

    def visible(self):
        """entries in USABLE trash dirs ($topdir/.Trash/$uid counts only
        while $topdir/.Trash passes the checks)"""
        out = []
        for e in self.entries:
            t = e['trash']
            if os.path.basename(os.path.dirname(t)) == '.Trash' and \
                    not spec.top_trash_ok(os.path.dirname(t)):
                continue
            out.append(e)
        return out

    def lines(self):
        return sorted('%s %s' % (e['date'].strftime('%Y-%m-%d %H:%M:%S'), e['loc'])
                      for e in self.visible())


def trash_dirs(w):
    out = []
    ht = spec.home_trash(w.env())
    if ht:
        out.append((os.path.normpath(ht), 'home'))
    for m in w.mounts:
        top = os.path.join(m, '.Trash')
        if spec.top_trash_ok(top):
            out.append((os.path.join(top, str(w.uid)), m))
        out.append((os.path.join(m, '.Trash-%d' % w.uid), m))
    return out


def disk_entries(w):
    """independent reading of every usable trash dir:
    list of (loc, date_text, trash_dir, name, has_payload)"""
    out = []
    for t, vol in trash_dirs(w):
        sc = trashio.scan_trash(t)
        for name, v in sc.items():
            if v['info'] is None:
                out.append((None, None, t, name, v['payload']))
                continue
            base = '/' if vol == 'home' else vol
            loc, pi = trashio.info_location(v['info'], t, base, vol == 'home')
            out.append((loc, pi['date_raw'], t, name, v['payload']))
    return out


def has_special(p):
    import stat as _st
    try:
        m = os.lstat(p).st_mode
    except OSError:
        return False
    if not (_st.S_ISREG(m) or _st.S_ISDIR(m) or _st.S_ISLNK(m)):
        return True
    if _st.S_ISDIR(m):
        for d, dirs, files in os.walk(p):
            for f in files:
                m2 = os.lstat(os.path.join(d, f)).st_mode
                if not (_st.S_ISREG(m2) or _st.S_ISLNK(m2)):
                    return True
    return False


def same_sig(a, b, copied):
    if a == b:
        return True
    if not copied or set(a) != set(b):
        return False
    # copied across volumes: symlinks arrive with a fresh mtime (C01 finding)
    for k in a:
        if a[k] != b[k] and not (a[k][0] == 'l' and b[k][0] == 'l' and
                                 a[k][:6] == b[k][:6]):
            return False
    return True


def run_case(case):
    res = run_history(case)
    if res.get('violations') and not case.get('no_shrink') and \
            res['violations'][0]['mechanism'] != 'fallback-copy-fault-leaves-orphan-payload':
        # greedy shrinking: drop steps one at a time while the same mechanism
        # keeps failing; the shortest failing history found is the witness
        mech = res['violations'][0]['mechanism'].split('/')[0]
        steps = list(case['steps'])
        i = len(steps) - 1
        tries = 0
        while i >= 0 and tries < 60:
            cand = steps[:i] + steps[i + 1:]
            c2 = dict(case, steps=cand, no_shrink=True)
            r2 = run_history(c2)
            tries += 1
            if r2.get('violations') and \
                    r2['violations'][0]['mechanism'].split('/')[0] == mech:
                steps = cand
            i -= 1
        res['violations'][0]['detail']['shrunk_history'] = steps
        res['violations'][0]['detail']['shrunk_from'] = len(case['steps'])
    return res


def run_history(case):
    out = {'violations': [], 'obs': {}, 'features': []}
    obs = out['obs']
    model = Model()
    clock = T0
    gen_no = {}
    removed_any = False
    put_any = False
    tolerated = set()     # orphan payloads left by the known F12 finding
    known = []
    with world.World(case) as w:
        slots = case['slots']

        def slot_path(i):
            return w.abs(slots[i]['dir'] + '/' + slots[i]['name'])

        for e in case.get('pre', []):
            model.entries.append({
                'loc': w.abs(e['loc']),
                'date': datetime.datetime.strptime(e['date'], FMT),
                'trash': os.path.realpath(w.abs(e['trash'])),
                'sig': snap.signature(w.abs(e['trash'] + '/files/' + e['name']))})

        for k, st in enumerate(case['steps']):
            clock = clock + datetime.timedelta(hours=1, seconds=k)
            obs['steps'] = obs.get('steps', 0) + 1
            out['features'].append('op:' + st['op'])
            hist = {'step': k, 'op': st}
            r = None
            if st['op'] == 'mk-top':
                top = w.abs(st['vol'] + '/.Trash')
                if not os.path.lexists(top):
                    os.mkdir(top)
                    os.chmod(top, 0o1777)
                # fall through to the list/disk comparison below
            elif st['op'] == 'recreate':
                i = st['slot']
                p = slot_path(i)
                if not os.path.lexists(p):
                    gen_no[i] = gen_no.get(i, 0) + 1
                    with open(p, 'w') as f:
                        f.write('recreated slot %d generation %d\n' % (i, gen_no[i]))
                continue
            elif st['op'] == 'put':
                cwd = w.abs(case['dirs'][0])
                args = []
                predicted = []
                seen = set()
                fb = bool(st.get('fb'))
                f12_dirs = []
                for i in st['slots']:
                    p = slot_path(i)
                    args.append(p if st['spell'] == 'abs' else os.path.relpath(p, cwd))
                    if os.path.lexists(p) and p not in seen:
                        seen.add(p)
                        exp, vol = spec.expected_trash_dirs(
                            p, dict(w.env(), TRASH_ENABLE_HOME_FALLBACK='1')
                            if fb else w.env(), w.uid, w.mounts,
                            trash_dir_opt=w.abs(st['trash_dir'])
                            if st.get('trash_dir') else None, fallback=fb)
                        if exp:
                            copied = spec.volume_of(os.path.realpath(exp[0]),
                                                    w.mounts) != vol
                            if copied and has_special(p):
                                # the cross-device copy refuses special files:
                                # the put fails, nothing is added (what it
                                # leaves behind is the known F12 finding)
                                f12_dirs.append(os.path.realpath(exp[0]))
                                obs['fallback_puts_bound_to_fail'] = \
                                    obs.get('fallback_puts_bound_to_fail', 0) + 1
                                continue
                            if copied:
                                obs['fallback_puts_copied'] = \
                                    obs.get('fallback_puts_copied', 0) + 1
                            predicted.append({
                                'loc': spec.real_entry(p), 'date': clock,
                                'trash': os.path.realpath(exp[0]),
                                'copied': copied,
                                'sig': snap.signature(p)})
                topt = ['--trash-dir', w.abs(st['trash_dir'])] \
                    if st.get('trash_dir') else []
                if fb:
                    topt = ['--home-fallback'] + topt
                before_orphans = set((t, n) for l, d, t, n, pay in disk_entries(w)
                                     if l is None) if f12_dirs else set()
                r = run.run(w, 'put', topt + ['--'] + args, stdin=b'', cwd=cwd,
                            plan={'put_clock': clock.strftime(FMT)},
                            env={'TRASH_ENABLE_HOME_FALLBACK': '1'} if fb else None)
                if f12_dirs:
                    for l, d, t, n, pay in disk_entries(w):
                        if l is None and (t, n) not in before_orphans and \
                                os.path.realpath(t) in f12_dirs and r.exit != 0:
                            tolerated.add((t, n))
                            known.append({
                                'mechanism': 'fallback-copy-fault-leaves-orphan-payload',
                                'detail': {'step': hist, 'orphan': [t, n],
                                           'cmd': r.brief()}})
                for e in predicted:
                    model.entries.append(e)
                    obs['puts_added'] = obs.get('puts_added', 0) + 1
                    put_any = True
            elif st['op'] == 'restore':
                cwd = w.abs(st['cwd']) if st['cwd'] else w.R
                if not os.path.isdir(cwd):
                    cwd = w.R
                args = ['--sort', st['sort']] if st['sort'] else []
                r0 = run.run(w, 'restore', args, stdin=b'', cwd=cwd)
                lst = trashio.parse_restore_listing(r0.outtext())
                # listing must be the model's in-scope entries
                scope = os.path.realpath(cwd)
                want = sorted((e['date'].strftime('%Y-%m-%d %H:%M:%S'), e['loc'])
                              for e in model.visible() if spec.in_scope(e['loc'], scope))
                got = sorted((d, p) for i, d, p in lst)
                if want != got:
                    out['violations'].append({
                        'mechanism': 'restore-listing-differs-from-model',
                        'detail': {'step': hist, 'want': want, 'got': got,
                                   'run': r0.brief()}})
                    break
                n = len(lst)
                rp = st['reply']
                if n == 0:
                    continue
                if rp == 'first':
                    reply, sel = '0', [0]
                elif rp == 'last':
                    reply, sel = str(n - 1), [n - 1]
                elif rp == 'all':
                    reply, sel = '0-%d' % (n - 1), list(range(n))
                elif rp == 'pair':
                    reply, sel = ('0,%d' % (n - 1)), sorted(set([0, n - 1]), key=[0, n - 1].index)
                elif rp == 'middle-list':
                    sel = [i for i in range(n) if i % 2 == 1] or [0]
                    reply = ','.join(str(i) for i in sel)
                elif rp == 'invalid':
                    reply, sel = str(n), None
                else:
                    reply, sel = '', []
                r = run.run(w, 'restore', args, stdin=(reply + '\n').encode(), cwd=cwd)
                if sel:
                    for i in sel:
                        _, d, p = lst[i]
                        # destination occupied -> refused, and the rest of the
                        # selection is abandoned (C06)
                        cands = [e for e in model.entries if e['loc'] == p and
                                 e['date'].strftime('%Y-%m-%d %H:%M:%S') == d]
                        if not cands:
                            break
                        # which of several identical (path,date) entries left
                        # is decided by content afterwards; prefer the one
                        # whose payload is now at the destination
                        chosen = None
                        for e in cands:
                            if same_sig(snap.signature(p), e['sig'], e.get('copied')):
                                chosen = e
                                break
                        if chosen is None:
                            break         # refused (occupied) or failed
                        model.entries.remove(chosen)
                        removed_any = True
                        obs['entries_removed_by_restore'] = \
                            obs.get('entries_removed_by_restore', 0) + 1
            elif st['op'] == 'rm':
                pat = world.subst(st['pattern'], w.R)
                r = run.run(w, 'rm', [pat], stdin=b'')
                keep = []
                vis = model.visible()
                for e in model.entries:
                    subject = e['loc'] if pat.startswith('/') else os.path.basename(e['loc'])
                    if e in vis and spec.glob_match(subject, pat):
                        removed_any = True
                        obs['entries_removed_by_rm'] = obs.get('entries_removed_by_rm', 0) + 1
                    else:
                        keep.append(e)
                model.entries = keep
            elif st['op'] == 'empty':
                now = clock + datetime.timedelta(hours=st['shift_h'])
                args = [] if st['days'] is None else [str(st['days'])]
                r = run.run(w, 'empty', args, stdin=b'',
                            env={'TRASH_DATE': now.strftime(FMT)})
                keep = []
                vis = model.visible()
                for e in model.entries:
                    if e in vis and (st['days'] is None or
                                     spec.older_than(st['days'], now, e['date'])):
                        removed_any = True
                        obs['entries_removed_by_empty'] = obs.get('entries_removed_by_empty', 0) + 1
                    else:
                        keep.append(e)
                model.entries = keep
            if r is not None and (r.timeout or r.audit_ok() is False):
                out['verdict'] = 'inconclusive'
                out['why'] = 'watchdog' if r.timeout else 'audit mismatch'
                return out
            # ---- (i) trash-list vs model
            rl = run.run(w, 'list', [], stdin=b'')
            got = sorted(l for l in rl.outtext().split('\n') if l)
            want = model.lines()
            obs['list_comparisons'] = obs.get('list_comparisons', 0) + 1
            if got != want:
                out['violations'].append({
                    'mechanism': 'list-differs-from-model/after-%s' % st['op'],
                    'detail': {'step': hist, 'only_in_list': [x for x in got if x not in want][:6],
                               'only_in_model': [x for x in want if x not in got][:6],
                               'cmd': r.brief() if r else None,
                               'history': case['steps'][:k + 1]}})
                break
            # ---- (i') the same through --all-users, the user being the second
            # account of the database (the first one has no trash anywhere)
            env_ = w.env()
            if case.get('index', 0) % 3 == 0 and not env_.get('XDG_DATA_HOME') \
                    and (env_.get('HOME') or '').startswith('/'):
                pw = [['first', 0 if case['uid'] != 0 else 1, w.R + '/nonexistent'],
                      ['me', case['uid'], env_['HOME']]]
                ra = run.run(w, 'list', ['--all-users'], stdin=b'',
                             plan={'passwd': pw})
                gota = sorted(l for l in ra.outtext().split('\n') if l)
                obs['list_all_users_comparisons'] = obs.get('list_all_users_comparisons', 0) + 1
                if gota != want:
                    out['violations'].append({
                        'mechanism': 'list-all-users-differs-from-model/after-%s' % st['op'],
                        'detail': {'step': hist,
                                   'only_in_list': [x for x in gota if x not in want][:6],
                                   'only_in_model': [x for x in want if x not in gota][:6],
                                   'cmd': ra.brief(),
                                   'history': case['steps'][:k + 1]}})
                    break
            # ---- (ii) on-disk reader vs model
            obs['disk_comparisons'] = obs.get('disk_comparisons', 0) + 1
            disk = disk_entries(w)
            dl = sorted(('%s %s' % ((d or '').replace('T', ' '), loc))
                        for loc, d, t, name, pay in disk if loc is not None and pay)
            if dl != want:
                out['violations'].append({
                    'mechanism': 'disk-differs-from-model/after-%s' % st['op'],
                    'detail': {'step': hist, 'disk': dl[:10], 'model': want[:10],
                               'cmd': r.brief() if r else None,
                               'history': case['steps'][:k + 1]}})
                break
            halves = [(t, name) for loc, d, t, name, pay in disk
                      if (loc is None or not pay) and (t, name) not in tolerated]
            if halves:
                out['violations'].append({
                    'mechanism': 'half-entry-on-disk/after-%s' % st['op'],
                    'detail': {'step': hist, 'halves': halves[:6],
                               'cmd': r.brief() if r else None,
                               'history': case['steps'][:k + 1]}})
                break
            # payload signatures and trash dirs of model entries
            for e in model.visible():
                hit = [x for x in disk if x[0] == e['loc'] and
                       os.path.realpath(x[2]) == e['trash'] and
                       same_sig(snap.signature(os.path.join(x[2], 'files', x[3])),
                                e['sig'], e.get('copied'))]
                if not hit:
                    out['violations'].append({
                        'mechanism': 'model-entry-not-on-disk-as-predicted/after-%s' % st['op'],
                        'detail': {'step': hist, 'entry': {'loc': e['loc'], 'trash': e['trash']},
                                   'cmd': r.brief() if r else None,
                                   'history': case['steps'][:k + 1]}})
                    break
            if out['violations']:
                break
    if known and not out['violations']:
        out['violations'].append(known[0])
        obs['known_f12_orphans'] = len(known)
    out['nontrivial'] = put_any and removed_any
    out['sample_obs'] = {'steps': len(case['steps']),
                         'final_model_size': len(model.entries)}
    out['verdict'] = 'violation' if out['violations'] else 'ok'
    return out
