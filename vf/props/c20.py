"""C20 - all commands read a trash directory the same way: four-way
differential (list / restore / rm / empty) on generated .trashinfo texts."""
import datetime
import os

from .. import gen, putcheck, run, snap, spec, trashgen, trashio, trashworld, world

ID = 'C20'
FMT = '%Y-%m-%dT%H:%M:%S'
TKINDS = ['home', 'home-own-volume', 'top', 'alt', 'alt-root', 'trash-dir',
          'trash-dir-link']


def config(tier):
    return {
        'level': 'exploration',
        'cold_sample': 2 if tier == 'quick' else 15,
        'cases': 1600 if tier == 'quick' else 30000,
        'budget_s': 55 if tier == 'quick' else 560,
        'floors': {'cases': 150, 'readings_compared': 300,
                   'restore_arrivals_checked': 100, 'rm_exact_checked': 80,
                   'empty_flips_checked': 80, 'relative_paths': 60},
        'rule': 'case = one generated .trashinfo text (absolute/relative Path, '
                'percent-escapes of any byte, ".." components, duplicate '
                'keys, extra keys/sections, missing header, CRLF, trailing '
                'spaces, empty Path) in one kind of trash dir (home, home on '
                'its own volume, .Trash/$uid, .Trash-$uid, --trash-dir); each '
                'of the four readings taken in an identical fresh world; '
                'non-trivial = text differs from what trash-put would write',
        'assumptions': ['agreement is judged between the commands; the base '
                        'directory is judged against the spec only for '
                        '$topdir trash dirs'],
    }


def gen_path_value(rng, tkind, index):
    """(raw Path value, class)"""
    r = rng.random()
    name = rng.choice(['f', 'a b', 'x%y', 'é', 'n+m', 'q?', 'long' * 8]) + str(index % 10)
    enc = spec.pct_encode(name.encode())
    if r < 0.04:
        # legal location (< PATH_MAX) whose escaped form is > 8 KiB
        unit = rng.choice(['\u4e2d', '\u00e9 ', '% '])
        comps = []
        for lvl in range(rng.randint(9, 12)):
            c = 'l%d' % lvl + unit * 100
            while len(c.encode('utf-8')) > 240:
                c = c[:-1]
            comps.append(spec.pct_encode(c.encode('utf-8')))
        return 'dest/' + '/'.join(comps) + '/' + enc, 'rel-long-escaped'
    if r < 0.22:
        return '@@R@@/dest/' + enc, 'abs'
    if r < 0.50:
        return 'dest/' + enc, 'rel'
    if r < 0.58:
        return 'dest/../dest/' + enc, 'rel-dotdot'
    if r < 0.64:
        return '@@R@@/dest/sub/../' + enc, 'abs-dotdot'
    if r < 0.72:
        # raw (unescaped) characters a foreign implementation may leave
        return 'dest/' + rng.choice(['a b', 'a+b', 'é', "it's", 'a&b', 'x=y',
                                     'a#b', 'tab\there', 'ff\x0chere', 'vt\x0bhere',
                                     'ls\u2028here', 'nel\x85here', 'fs\x1chere',
                                     'ps\u2029here']) + str(index % 10), 'rel-raw'
    if r < 0.80:
        return 'dest/' + rng.choice(['%41%42', '%e9', '%C3%A9', '%ff%fe',
                                     '%2e%2e', '%zz', '%', '%4', 'a%2Fb',
                                     '%0A', '%00x']) + str(index % 10), 'rel-escapes'
    if r < 0.85:
        return 'dest/' + enc + rng.choice([' ', '  ', '\t']), 'trailing-space'
    if r < 0.90:
        return './dest/' + enc, 'rel-dot'
    if r < 0.93:
        return 'dest//' + enc, 'rel-double-slash'
    if r < 0.95:
        return rng.choice(['dest/' + enc + '/', 'dest/./' + enc,
                           'dest/' + enc + '/.']), 'rel-redundant'
    if r < 0.97:
        return rng.choice(['@@R@@/dest/' + enc + '/', '@@R@@//dest/' + enc,
                           '@@R@@/dest/./' + enc]), 'abs-redundant'
    return '', 'empty'


def gen_text(rng, tkind, index):
    pv, pclass = gen_path_value(rng, tkind, index)
    date = trashgen.rand_date(rng, 1995, 2060)
    r = rng.random()
    tclass = 'plain'
    if r < 0.25:
        text = '[Trash Info]\nPath=%s\nDeletionDate=%s\n' % (pv, date)
    elif r < 0.35:
        text = '[Trash Info]\nDeletionDate=%s\nPath=%s\n' % (date, pv)
        tclass = 'reordered'
    elif r < 0.45:
        text = '[Trash Info]\nPath=%s\nPath=other/second\nDeletionDate=%s\nDeletionDate=1999-09-09T09:09:09\n' % (pv, date)
        tclass = 'dup-keys'
    elif r < 0.55:
        text = '[Trash Info]\nX-Extra=1\nPath=%s\nComment=Path=decoy\nDeletionDate=%s\n[Other Section]\nPath=section/two\nDeletionDate=2000-01-01T00:00:00\n' % (pv, date)
        tclass = 'extra-keys'
    elif r < 0.62:
        text = 'Path=%s\nDeletionDate=%s\n' % (pv, date)
        tclass = 'no-header'
    elif r < 0.70:
        text = '[Trash Info]\r\nPath=%s\r\nDeletionDate=%s\r\n' % (pv, date)
        tclass = 'crlf'
    elif r < 0.76:
        text = '[Trash Info]\nPath=%s\nDeletionDate=%s' % (pv, date)
        tclass = 'no-final-newline'
    elif r < 0.79:
        text = '[Trash Info]\nPath=%s\nDeletionDate=%s \n' % (pv, date)
        tclass = 'date-trailing-space'
    elif r < 0.82:
        # near-valid forms a lenient reader might accept: all four commands
        # or none
        text = '[Trash Info]\nPath=%s\nDeletionDate=%s\n' % (pv, rng.choice(
            [date.replace('T', ' '), date.replace('T', 't'), date + 'Z',
             date[:16], date.replace('-', '/'), date + '.000']))
        tclass = 'date-near-valid'
    elif r < 0.88:
        text = '[Trash Info]\nPath=%s\n' % pv
        tclass = 'no-date'
    elif r < 0.93:
        text = '[Trash Info]\nPath=%s\nDeletionDate=garbage\nDeletionDate=%s\n' % (pv, date)
        tclass = 'invalid-then-valid-date'
    else:
        text = '\n\n[Trash Info]\n  Path=indented\nPath=%s\nDeletionDate=%s\n' % (pv, date)
        tclass = 'blank-and-indented'
    if rng.random() < 0.06:
        # a big file: unknown keys (another implementation's metadata) before,
        # between or after the two known lines
        pad = ''.join('X-Unknown-%d=%s\n' % (i, 'v' * 100)
                      for i in range(rng.choice([40, 90, 200, 700])))
        lines = text.split('\n')
        at = rng.choice([1, 2, len(lines) - 1]) if len(lines) > 2 else 1
        if lines[0] != '[Trash Info]' and not lines[0].startswith('[Trash Info]\r'):
            at = len(lines) - 1
        if tclass == 'crlf':
            pad = pad.replace('\n', '\r\n')
            lines = text.split('\r\n')
            text = '\r\n'.join(lines[:at]) + '\r\n' + pad + '\r\n'.join(lines[at:])
        else:
            text = '\n'.join(lines[:at]) + '\n' + pad + '\n'.join(lines[at:])
        tclass += '+big'
    return text, pclass, tclass


def gen_case(rng, index, tier):
    tkind = rng.choice(TKINDS)
    vols = ['v1'] if tkind in ('top', 'alt', 'trash-dir-link') or \
        rng.random() < 0.3 else []
    L = gen.make_layout(rng, volumes=vols,
                        home_own_volume=(tkind == 'home-own-volume'),
                        xdg='unset', top_states={'v1': 'sticky', '': 'sticky'}
                        if tkind == 'top' else {}, alt_states={},
                        trash_volumes_env=rng.random() < 0.3)
    uid = L.uid
    if tkind in ('home', 'home-own-volume'):
        tdir = L.home_trash()
        vol = 'home' if tkind == 'home-own-volume' else ''
    elif tkind == 'top':
        tdir = 'v1/.Trash/%d' % uid
        vol = 'v1'
    elif tkind == 'alt':
        tdir = 'v1/.Trash-%d' % uid
        vol = 'v1'
    elif tkind == 'alt-root':
        tdir = '.Trash-%d' % uid
        vol = ''
    elif tkind == 'trash-dir-link':
        # the trash dir is named through a symlink that crosses a mount point:
        # every command must take the volume of the path AS GIVEN
        tdir = 'v1/real-trash' if rng.random() < 0.5 else 'custom/real-trash'
        link_at = 'lnk-trash' if tdir.startswith('v1/') else 'v1/lnk-trash'
        L.add({'p': link_at, 't': 'l', 'to': '@/' + tdir})
        vol = '' if tdir.startswith('v1/') else 'v1'
    else:
        tdir = (vols[0] + '/' if vols and rng.random() < 0.5 else '') + 'custom/trash'
        vol = vols[0] if tdir.startswith('v1/') else ''
    text, pclass, tclass = gen_text(rng, tkind, index)
    L.add(world.ensure_trash_dirs(tdir))
    L.add({'p': tdir + '/info/item.trashinfo', 't': 'f', 'c': text,
           'm': 0o600, 'sub': True})
    L.add({'p': tdir + '/files/item', 't': 'f', 'c': 'payload %d\n' % index})
    # a second, ordinary entry so that listings are not trivial
    L.add({'p': tdir + '/info/plain.trashinfo', 't': 'f', 'sub': True,
           'c': world.trashinfo_text(
               '@@R@@/elsewhere/plain' if tkind.startswith('home') else 'elsewhere/plain',
               '2011-11-11T11:11:11')})
    L.add({'p': tdir + '/files/plain', 't': 'f', 'c': 'plain %d\n' % index})
    twin = None
    if '%C3%A9' in text and rng.random() < 0.6:
        # a twin whose Path differs from item's only by Unicode normal form
        # (e + combining acute instead of the composed letter): another path
        twin = text.replace('%C3%A9', 'e%CC%81')
        L.add({'p': tdir + '/info/twin.trashinfo', 't': 'f', 'c': twin,
               'm': 0o600, 'sub': True})
        L.add({'p': tdir + '/files/twin', 't': 'f', 'c': 'twin %d\n' % index})
    L.cwd = ''
    case = L.desc()
    case['tkind'] = tkind
    case['tdir'] = tdir
    case['tdir_arg'] = link_at if tkind == 'trash-dir-link' else tdir
    if tkind in ('trash-dir', 'trash-dir-link') and rng.random() < 0.5:
        # trash-list is given other (empty) trash directories first, one of
        # them twice: each --trash-dir keeps its own volume
        other = 'other-td' if (vol == 'v1' or 'v1' not in L.mounts) else 'v1/other-td'
        L.add(world.ensure_trash_dirs(other))
        case['list_more'] = rng.choice([[other], [other, other + '/'],
                                        [other, other]])
    case['vol'] = vol
    case['pclass'] = pclass
    if pclass in ('rel-raw', 'rel-escapes') and rng.random() < 0.35 or rng.random() < 0.02:
        case['ascii_locale'] = True
    case['tclass'] = tclass
    case['text'] = text
    return case


def topt(case, w):
    if case['tkind'] in ('trash-dir', 'trash-dir-link'):
        return ['--trash-dir', w.abs(case.get('tdir_arg') or case['tdir'])]
    return []


def run_case(case):
    if not case.get('ascii_locale'):
        return _run_case(case)
    # every command in a fresh interpreter whose LOCALE encoding is ASCII
    # (open() without an encoding decodes in the locale's), the standard
    # streams kept UTF-8: the four readers must still agree
    old = run.MODE, run.COLD_LOCALE
    run.MODE = 'cold'
    run.COLD_LOCALE = {'LC_ALL': 'C', 'LANG': 'C', 'PYTHONUTF8': '0',
                       'PYTHONCOERCECLOCALE': '0',
                       'PYTHONIOENCODING': 'utf-8:surrogateescape'}
    try:
        res = _run_case(case)
        res.setdefault('features', []).append('locale:ascii')
        res.setdefault('obs', {})['ascii_locale_cases'] = 1
        return res
    finally:
        run.MODE, run.COLD_LOCALE = old


def other_entry(p):
    """a listed path that belongs to the companion entries of the world (the
    plain one, the normal-form twin), not to the entry under test"""
    return p.endswith('/elsewhere/plain') or 'e\u0301' in p


def _run_case(case):
    out = {'violations': [], 'obs': {}, 'features': []}
    obs = out['obs']
    out['features'] += ['t:' + case['tkind'], 'p:' + case['pclass'],
                        'x:' + case['tclass']]
    ik = case['tdir'] + '/info/item.trashinfo'
    pk = case['tdir'] + '/files/item'
    readings = {}
    runs = {}

    def viol(mech, **kw):
        d = {'text': case['text'], 'tdir': case['tdir'], 'tkind': case['tkind'],
             'readings': readings}
        d.update(kw)
        out['violations'].append({'mechanism': mech, 'detail': d})

    # ---------------- reading 1: trash-list
    with world.World(case) as w:
        R = w.R
        more = []
        for o in case.get('list_more') or []:
            more += ['--trash-dir', w.abs(o)]
        if more:
            obs['list_with_several_trash_dirs'] = 1
        r = run.run(w, 'list', more + topt(case, w), stdin=b'')
        runs['list'] = r.brief()
        if r.timeout:
            out['verdict'] = 'inconclusive'
            out['why'] = 'watchdog'
            return out
        rows = trashio.parse_list_output(r.outtext())
        mine = [(d, p) for d, p in rows if not other_entry(p)]
        if len(mine) == 1:
            readings['list'] = {'date': mine[0][0], 'path': rel_to(mine[0][1], R)}
        elif len(mine) == 0:
            readings['list'] = None
        else:
            viol('list-shows-entry-more-than-once', rows=rows)
    # ---------------- reading 2: trash-restore (listing + arrival)
    with world.World(case) as w:
        R = w.R
        s0 = w.snapshot()
        r0 = run.run(w, 'restore', topt(case, w) + ['/'], stdin=b'', cwd=w.R)
        lst = trashio.parse_restore_listing(r0.outtext())
        mine = [(i, d, p) for i, d, p in lst if not other_entry(p)]
        runs['restore-list'] = r0.brief()
        if len(mine) == 1:
            i, d, p = mine[0]
            readings['restore'] = {'date': d, 'path': rel_to(p, R)}
            r1 = run.run(w, 'restore', topt(case, w) + ['/'],
                         stdin=b'%d\n' % i, cwd=w.R)
            runs['restore'] = r1.brief()
            s1 = w.snapshot()
            arrived = [k for k in s1 if k not in s0 and s1[k][0] == 'f' and
                       s1[k][5] == s0[pk][5]]
            esc = [e.get('tgt') for e in r1.escapes()]
            if len(arrived) == 1 and pk not in s1:
                readings['restore']['arrived'] = '@R/' + arrived[0]
                obs['restore_arrivals_checked'] = 1
            elif esc:
                # the destination lies outside the sandbox: the fence stopped it
                readings['restore']['arrived'] = rel_to(
                    [t for t in esc if t][-1], R) + ' (outside sandbox, fenced)'
                obs['restore_fenced'] = 1
            else:
                readings['restore']['arrived'] = None
                readings['restore']['restore_err'] = r1.errtext()[-200:]
        elif len(mine) == 0:
            readings['restore'] = None
        else:
            viol('restore-lists-entry-more-than-once', listing=lst)
    # ---------------- compare list and restore
    L_, Rr = readings.get('list'), readings.get('restore')
    L_raw = L_
    obs['readings_compared'] = 1
    if (L_ is None) != (Rr is None):
        viol('listed-by-one-command-only/%s/%s' % (case['tkind'], case['pclass']),
             runs=runs)
    elif L_ is not None:
        if case['tkind'] == 'home' and not L_['path'].startswith('@R'):
            # home on the root volume: the sandbox root R stands for '/', and
            # only here do "relative to /" and "relative to the home volume"
            # denote the same base
            L_ = dict(L_, path='@R' + L_['path'])
            readings['list_normalised'] = L_
        if L_['path'] != Rr['path']:
            viol('path-differs-list-vs-restore/%s/%s' % (
                case['tkind'], path_kind(case)), runs=runs)
        ld = L_['date']
        rd = Rr['date']
        if (ld.startswith('?') != (rd == 'None')) or \
                (not ld.startswith('?') and ld != rd):
            viol('date-differs-list-vs-restore', runs=runs)
        arr = Rr.get('arrived')
        if arr is not None and not arr.endswith('(outside sandbox, fenced)'):
            # restore normalises nothing: the payload must arrive where the
            # listing said (kernel-resolved)
            want = os.path.normpath(Rr['path'].replace('@R', '/R', 1))
            got = os.path.normpath(arr.replace('@R', '/R', 1))
            if want != got and '..' not in Rr['path'].split('/'):
                # a Path that ends in a separator (or in "/.") names the entry
                # itself; told apart because it fails by a mechanism of its own
                tail = '/trailing-separator' if (
                    Rr['path'].endswith('/') or Rr['path'].endswith('/.')) else ''
                viol('restored-to-a-different-path-than-listed' + tail, runs=runs)
    # spec: relative Path in $topdir trash dirs is resolved against $topdir
    if L_ is not None and case['tkind'] in ('top', 'alt', 'alt-root') and \
            case['pclass'].startswith('rel') and case['pclass'] != 'rel-escapes':
        obs['relative_paths'] = 1
        base = '@R' + ('/' + case['vol'] if case['vol'] else '')
        if not L_['path'].startswith(base + '/'):
            viol('relative-path-not-resolved-against-topdir', base=base)
    elif L_ is not None and case['pclass'].startswith('rel'):
        obs['relative_paths'] = 1
    if L_ is None:
        out['nontrivial'] = True
        out['verdict'] = 'violation' if out['violations'] else 'ok'
        out['sample_obs'] = {'readings': readings}
        return out
    # ---------------- reading 3: trash-rm on the exact path
    # (under the ASCII locale a listed path with replacement characters cannot
    # be handed back as an argument: only list vs restore is compared there)
    ascii_skip = case.get('ascii_locale') and \
        any(ord(c) > 127 for c in L_raw['path'])
    if case['tkind'] not in ('trash-dir', 'trash-dir-link') and not ascii_skip:
        abs_listed = L_raw['path']
        with world.World(case) as w:
            p = abs_listed.replace('@R', w.R, 1)
            s0 = w.snapshot()
            pat = spec.glob_escape(p)
            if not pat.startswith('/'):
                pat = None
            if pat and '\n' not in pat and '\x00' not in pat:
                # (no argument of a real command line can hold a NUL byte)
                r = run.run(w, 'rm', [pat], stdin=b'')
                s1 = w.snapshot()
                runs['rm'] = r.brief()
                gone = ik not in s1 and pk not in s1
                readings['rm'] = {'pattern': rel_to(pat, w.R), 'removed': gone}
                obs['rm_exact_checked'] = 1
                if not gone:
                    viol('rm-does-not-match-the-path-list-shows/%s/%s' % (
                        case['tkind'], path_kind(case)), runs=runs)
                if (case['tdir'] + '/info/plain.trashinfo') not in s1:
                    viol('rm-removed-another-entry', runs=runs)
                if (case['tdir'] + '/info/twin.trashinfo') in s0:
                    obs['normal_form_twins'] = 1
                    if (case['tdir'] + '/info/twin.trashinfo') not in s1 or \
                            (case['tdir'] + '/files/twin') not in s1:
                        viol('rm-removed-the-normal-form-twin', runs=runs)
    # ---------------- reading 4: trash-empty DAYS around the boundary
    ld = L_['date']
    if not ld.startswith('?'):
        d = datetime.datetime.strptime(ld, '%Y-%m-%d %H:%M:%S')
        keep_now = d + datetime.timedelta(days=1)
        purge_now = keep_now + datetime.timedelta(seconds=1)
        res = {}
        for label, now in (('keep', keep_now), ('purge', purge_now)):
            with world.World(case) as w:
                r = run.run(w, 'empty', topt(case, w) + ['1'], stdin=b'',
                            env={'TRASH_DATE': now.strftime(FMT)})
                s1 = w.snapshot()
                res[label] = (ik not in s1 and pk not in s1,
                              ik in s1 and pk in s1)
        readings['empty'] = {'keep': res['keep'], 'purge': res['purge']}
        obs['empty_flips_checked'] = 1
        if not res['keep'][1] or not res['purge'][0]:
            viol('empty-compares-a-different-date-than-list-shows', runs=runs)
    else:
        with world.World(case) as w:
            r = run.run(w, 'empty', topt(case, w) + ['0'], stdin=b'',
                        env={'TRASH_DATE': '2999-01-01T00:00:00'})
            s1 = w.snapshot()
            readings['empty'] = {'undated_kept': ik in s1 and pk in s1}
            if not (ik in s1 and pk in s1):
                viol('empty-purged-entry-that-list-shows-undated', runs=runs)
    out['nontrivial'] = case['tclass'] != 'plain' or case['pclass'] not in ('abs', 'rel')
    out['sample_obs'] = {'readings': readings, 'text': case['text']}
    out['verdict'] = 'violation' if out['violations'] else 'ok'
    return out


def rel_to(p, R):
    if p is None:
        return None
    return p.replace(R, '@R')


def path_kind(case):
    return 'relative' if case['pclass'].startswith('rel') or \
        case['pclass'] in ('trailing-space', 'empty') else 'absolute'
