"""C01 - trash-put conserves data: each argument ends fully trashed or
untouched; the frame of the sandbox is otherwise unchanged."""
import os

from .. import gen, putcheck, run, snap, spec, world

ID = 'C01'

SPELLINGS = ['rel', 'abs', 'dotslash', 'dotdot', 'dotdot_link', 'trail1',
             'trail2', 'trail3', 'via_link_parent', 'abs_trail', 'double_slash',
             'via_link_ancestor']
DOT_SPELLINGS = ['.', '..', './', '../', 'd/.', 'd/..', 'd/./', './/',
                 'd/../', 'd/.//', './.', 'mount', 'mount/', 'ancestor',
                 'mount_rel']


def config(tier):
    return {
        'level': 'exploration',
        'cold_sample': 6 if tier == 'quick' else 40,
        'real_sample': 10 if tier == 'quick' else 80,
        'cases': 6000 if tier == 'quick' else 120000,
        'budget_s': 45 if tier == 'quick' else 560,
        'floors': {'cases': 300, 'args_trashed': 200, 'args_untouched': 50,
                   'mutating_events': 2000},
        'rule': 'case = generated world (volumes, trash-dir states, env, '
                'entries with hostile names) + 1-3 spelled arguments + options; '
                'non-trivial = at least one argument designates an existing '
                'entry and a mutating event or explicit refusal was observed; '
                'distinct by canonical hash of the case descriptor',
        'assumptions': ['virtual mount table (shim) stands for st_dev',
                        'kernel + tmpfs', 'snapshotter vf/snap.py'],
    }


def setup_workdirs(L, rng, cwd_vol=None):
    vols = list(L.mounts)
    workdirs = {}
    for v in vols:
        wd = (L.home + '/work') if (v == 'home' or (v == '' and 'home' not in vols)) \
            else L.vol_path(v, 'work')
        workdirs[v] = wd
        L.add({'p': wd, 't': 'd', 'm': 0o755})
    if cwd_vol is None:
        cwd_vol = rng.choice(vols)
    L.cwd = workdirs[cwd_vol]
    return workdirs


def add_dot_entry(L, rng, workdirs, tag, sp=None):
    cwd = L.cwd
    sp = sp or rng.choice(DOT_SPELLINGS)
    # give the cwd some content and a subdir d
    L.add(gen.entry_nodes(rng, cwd + '/keep-' + tag, 'file', tag))
    L.add({'p': cwd + '/d', 't': 'd', 'm': 0o755})
    L.add(gen.entry_nodes(rng, cwd + '/d/inner-' + tag, 'tree', tag + 'i'))
    spelling = sp
    if sp in ('mount', 'mount/', 'mount_rel'):
        ms = [m for m in L.mounts if m]
        if not ms:
            sp = spelling = './'
        else:
            m = rng.choice(ms)
            L.add(gen.entry_nodes(rng, m + '/data-' + tag, 'tree', tag + 'm'))
            if sp == 'mount_rel':
                spelling = os.path.relpath('/' + m, '/' + cwd)
            else:
                spelling = '@/' + m + ('/' if sp == 'mount/' else '')
    elif sp == 'ancestor':
        anc = os.path.dirname(cwd)
        ht = L.home_trash() or ''
        if not anc or anc in L.mounts or ht.startswith(anc + '/') or \
                any(m.startswith(anc + '/') for m in L.mounts):
            # the sandbox root, a mount point (covered by 'mount') or a
            # directory holding a trash dir / a mount: not an ordinary entry
            sp = spelling = '../'
        else:
            spelling = '@/' + anc
    return {'spelling': spelling, 'class': 'dot:' + sp}


def add_entry(L, rng, workdirs, a, tag, used, kinds=None, spellings=None,
              name=None, vol=None, name_kw=None, deep=None):
    """one ordinary user entry + the spelling of the argument naming it"""
    vols = list(L.mounts)
    cwd = L.cwd
    v = vol if vol is not None else rng.choice(vols)
    d = workdirs[v]
    if rng.random() < 0.3:
        d = d + '/sub' + str(a)
        L.add({'p': d, 't': 'd', 'm': 0o755})
    if deep is None:
        deep = rng.random() < 0.03
    if deep:
        # a legal but very long original location (below PATH_MAX) whose
        # percent-encoded form is several times longer: 6-12 levels of
        # 240-byte names that need escaping
        unit = rng.choice(['\u4e2d', '\u00e9x', 'a b', '%41', '\u00fc\n'])
        for lvl in range(rng.randint(6, 12)):
            comp = 'sub%d-%d-' % (a, lvl) + unit * 120
            while len(comp.encode('utf-8')) > 240:
                comp = comp[:-1]
            d = d + '/' + comp
            L.add({'p': d, 't': 'd', 'm': 0o755})
    if name is None:
        for _ in range(20):
            name = gen.hostile_name(rng, **(name_kw or {}))
            if (d, name) not in used and name not in ('d', 'sib', 'links') \
                    and not name.startswith(('pl', 'lnk', 'keep-', 'target-',
                                             'sub', 'mytrash', 'deep')):
                break
    used.add((d, name))
    kind = rng.choice(kinds or (gen.ENTRY_KINDS * 2 + ['tree_fifo', 'tree_fifo', 'fifo', 'socket', 'hardlinked']))
    rel = d + '/' + name
    target = None
    tgt_rel = None
    lexdir = None
    via_link = None
    if kind in ('link_file', 'link_dir', 'link_link'):
        tv = rng.choice(vols)
        tdir = workdirs[tv]
        tname = 'target-' + tag
        tgt_rel = tdir + '/' + tname
        if kind == 'link_file':
            L.add(gen.entry_nodes(rng, tgt_rel, 'file', tag + 't'))
        elif kind == 'link_dir':
            L.add(gen.entry_nodes(rng, tgt_rel, 'tree', tag + 't'))
        else:
            L.add(gen.entry_nodes(rng, tgt_rel + '-f', 'file', tag + 't'))
            L.add({'p': tgt_rel, 't': 'l', 'to': tname + '-f'})
        if rng.random() < 0.5:
            target = '@/' + tgt_rel
        else:
            target = os.path.relpath('/' + tgt_rel, '/' + d)
    elif kind == 'link_up':
        # a link to a directory that CONTAINS the trash directory it will be
        # put in (its own parent chain, the volume's top, $HOME): moving the
        # link is still moving a link
        ups = ['..', '../..', '.']
        if v:
            ups.append('@/' + v)
        if L.home:
            ups.append('@/' + L.home)
        target = rng.choice(ups)
    elif kind == 'link_dangling':
        target = rng.choice(['nowhere-' + tag, '/nonexistent/' + tag,
                             '../gone/' + tag, name])
    L.add(gen.entry_nodes(rng, rel, kind, tag, target))
    isdirlike = kind in ('tree', 'dir_empty', 'link_dir', 'tree_fifo', 'link_up')
    sp = rng.choice(spellings or SPELLINGS)
    if sp in ('trail1', 'trail2', 'abs_trail', 'trail3') and not isdirlike \
            and rng.random() < 0.7:
        sp = 'rel'
    relfrom = os.path.relpath('/' + rel, '/' + cwd)
    dfrom = os.path.relpath('/' + d, '/' + cwd)
    if sp == 'rel':
        spelling = relfrom
    elif sp == 'abs':
        spelling = '@/' + rel
    elif sp == 'dotslash':
        spelling = './' + relfrom
    elif sp == 'dotdot':
        L.add({'p': d + '/sib', 't': 'd', 'm': 0o755})
        spelling = dfrom + '/sib/../' + name
    elif sp == 'dotdot_link':
        # lnk -> d/sib ;  lnk/../name  names d/name (kernel), while the
        # lexical reading names <dir of lnk>/name
        L.add({'p': d + '/sib', 't': 'd', 'm': 0o755})
        lv = rng.choice(vols)
        ld = workdirs[lv] + '/links'
        L.add({'p': ld, 't': 'd', 'm': 0o755})
        L.add({'p': ld + '/lnk%d' % a, 't': 'l', 'to': '@/' + d + '/sib'})
        if rng.random() < 0.5 and (ld, name) not in used:
            # decoy with the same name where the lexical reading points
            L.add(gen.entry_nodes(rng, ld + '/' + name, 'file', tag + 'decoy'))
            used.add((ld, name))
        spelling = os.path.relpath('/' + ld, '/' + cwd) + '/lnk%d/../' % a + name
        lexdir = ld
    elif sp == 'trail1':
        spelling = relfrom + '/'
    elif sp == 'trail2':
        spelling = relfrom + '//'
    elif sp == 'trail3':
        spelling = relfrom + '///'
    elif sp == 'abs_trail':
        spelling = '@/' + rel + '/'
    elif sp == 'double_slash':
        spelling = dfrom + '//' + name
    elif sp == 'via_link_parent':
        lv = rng.choice(vols)
        L.add({'p': workdirs[lv] + '/pl%d' % a, 't': 'l', 'to': '@/' + d})
        spelling = os.path.relpath('/' + workdirs[lv], '/' + cwd) + '/pl%d/' % a + name
        via_link = workdirs[lv] + '/pl%d' % a
    elif sp == 'via_link_ancestor':
        # a symbolic link HIGHER UP than the parent (a symlinked $HOME, a
        # symlinked project root): al -> dirname(d);  al/<basename d>/name,
        # spelled absolute and normalised
        lv = rng.choice(vols)
        up = os.path.dirname(d)
        if up and up != d:
            L.add({'p': workdirs[lv] + '/al%d' % a, 't': 'l', 'to': '@/' + up})
            spelling = '@/' + workdirs[lv] + '/al%d/' % a + os.path.basename(d) + \
                '/' + name
        else:
            sp = 'abs'
            spelling = '@/' + rel
    if spelling.startswith('@') and sp not in ('abs', 'abs_trail', 'via_link_ancestor'):
        spelling = './' + spelling      # '@' is the harness's root placeholder
    out = {'spelling': spelling, 'class': sp, 'kind': kind, 'rel': rel,
           'target': tgt_rel}
    if lexdir:
        out['lexdir'] = lexdir
    if via_link:
        out['via_link'] = via_link
    return out


def add_link_companion(L, rng, arg):
    """a later argument of the same command: the symlink THROUGH which arg was
    reached, with or without trailing slashes (it lives on its own volume,
    whatever was found out about the directory it points to)"""
    link = arg['via_link']
    dfrom = os.path.relpath('/' + link, '/' + L.cwd)
    return {'spelling': dfrom + rng.choice(['/', '/', '', '//']),
            'class': 'link-companion', 'kind': 'link_dir', 'rel': link,
            'target': os.path.dirname(arg['rel'])}


def add_companion(L, rng, arg, a, tag, used):
    """another argument for the same command line, living in the directory
    that the LEXICAL reading of arg's spelling ('ld/lnk/../x' -> 'ld/x')
    names: nothing remembered from one argument may leak into the other"""
    ld = arg['lexdir']
    name = 'comp%d' % a
    if (ld, name) in used:
        return None
    used.add((ld, name))
    kind = rng.choice(['file', 'link_dangling', 'tree'])
    rel = ld + '/' + name
    L.add(gen.entry_nodes(rng, rel, kind, tag + 'comp'))
    dfrom = os.path.relpath('/' + ld, '/' + L.cwd)
    spelling = name if dfrom == '.' else rng.choice([dfrom + '/' + name,
                                                     './' + dfrom + '/' + name])
    if dfrom == '.' and rng.random() < 0.5:
        spelling = './' + name
    return {'spelling': spelling, 'class': 'companion', 'kind': kind,
            'rel': rel, 'target': None}


def pick_options(L, rng, workdirs, args, index, allowed=None):
    vols = list(L.mounts)
    opts = []
    stdin = ''
    env_extra = {}
    table = [('-f', 0.12), ('-i', 0.15), ('-v', 0.10), ('--trash-dir', 0.15),
             ('--home-fallback', 0.12), ('fallback-env-only', 0.04),
             ('none', 0.32)]
    if allowed is not None:
        table = [(k, w) for k, w in table if k in allowed]
    tot = sum(w for _, w in table)
    r = rng.random() * tot
    optclass = table[-1][0]
    for k, w in table:
        if r < w:
            optclass = k
            break
        r -= w
    if optclass == '-f':
        opts.append('-f')
    elif optclass == '-i':
        opts.append('-i')
        replies = [rng.choice(['y', 'n', 'Y', 'yes', 'N', '', 'x', ' y', 'no'])
                   for _ in range(len(args) + 1)]
        stdin = ''.join(x + '\n' for x in replies)
        if rng.random() < 0.15:
            stdin = stdin[:rng.randrange(len(stdin) + 1)]
    elif optclass == '-v':
        opts.append(rng.choice(['-v', '-vv']))
    elif optclass == '--trash-dir':
        tv = rng.choice(vols)
        td = L.vol_path(tv, rng.choice(['mytrash', 'deep/er/trash', '.Trash-x']))
        if rng.random() < 0.4:
            L.add(world.ensure_trash_dirs(td))
        spelled = td
        if rng.random() < 0.3:
            # the directory named through a symlink (possibly one that lives
            # on another volume than its target): the path AS GIVEN is what
            # list/restore will be given too
            lv = rng.choice(vols)
            L.add({'p': td, 't': 'd', 'm': 0o700})
            spelled = L.vol_path(lv, 'to-my-trash-%d' % index)
            L.add({'p': spelled, 't': 'l', 'to': '@/' + td})
            optclass = '--trash-dir'
        opts += ['--trash-dir', '@/' + spelled]
    elif optclass == '--home-fallback':
        opts.append('--home-fallback')
        r2 = rng.random()
        if r2 < 0.55:
            env_extra['TRASH_ENABLE_HOME_FALLBACK'] = '1'
            optclass = '--home-fallback+env'
        elif r2 < 0.8:
            # only the value 1 switches the fallback on
            env_extra['TRASH_ENABLE_HOME_FALLBACK'] = rng.choice(
                ['', '0', 'yes', 'true', '2', ' 1', '01', 'on', '1 '])
    elif optclass == 'fallback-env-only':
        env_extra['TRASH_ENABLE_HOME_FALLBACK'] = '1'
    # semantically neutral decorations: long forms, bundled short options,
    # the flags trash-put ignores for rm compatibility,
    # message-only environment switches
    dr = rng.random()
    if dr < 0.30:
        longs = {'-f': '--force', '-i': '--interactive', '-v': '--verbose',
                 '-vv': '-v'}
        bundle = {'-f': ['-rf', '-fr', '-df', '-Rf', '-fv'],
                  '-i': ['-ri', '-id', '-iv'],
                  '-v': ['-rv', '-vd'], '-vv': ['-vrv', '-vvd']}
        kind = rng.choice(['long', 'bundle', 'ignored', 'ignored', 'env'])
        if kind == 'long' and opts and opts[0] in longs:
            opts[0] = longs[opts[0]]
            if opts[0] == '-v':
                opts.insert(0, '--verbose')
        elif kind == 'bundle' and opts and opts[0] in bundle:
            opts[0] = rng.choice(bundle[opts[0]])
        elif kind == 'ignored':
            extra = rng.choice([['-r'], ['-R'], ['-d'], ['--recursive'],
                                ['--directory'], ['-rd'], ['-r', '-d']])
            if rng.random() < 0.5:
                opts = extra + opts
            else:
                opts = opts + extra
        elif kind == 'env':
            env_extra['TRASH_PUT_DISABLE_SHRINK'] = '1'
    return opts, stdin, env_extra, optclass


def trash_names(nm):
    """names trash-put may pick for an entry called nm: nm, nm_1, and - when
    nm + '.trashinfo' exceeds NAME_MAX - the shortened forms"""
    out = [nm, nm + '_1']
    if len((nm + '.trashinfo').encode('utf-8', 'surrogateescape')) > 255:
        for suf in ('_1', '_2'):
            cut = len(nm) - len(suf + '.trashinfo')
            if cut > 0:
                out.append(nm[:cut] + suf)
    return [n for n in out
            if len((n + '.trashinfo').encode('utf-8', 'surrogateescape')) <= 255]


def add_stale(L, rng, args, index, p=0.3, extra_dirs=()):
    """stale content carrying an argument's name in the trash dirs that may be
    chosen: payloads WITHOUT info (file, empty dir, tree) and infos without
    payload.  Nothing may be written into / over them."""
    if rng.random() >= p:
        return
    cands = list(extra_dirs)
    ht = L.home_trash()
    if ht:
        cands.append(ht)
    for v in L.mounts:
        if L.alt_state.get(v) in ('absent', 'dir'):
            cands.append(L.vol_path(v, '.Trash-%d' % L.uid))
        if L.top_state.get(v) == 'sticky':
            cands.append(L.vol_path(v, '.Trash/%d' % L.uid))
    for a in args:
        nm = os.path.basename(a['spelling'].rstrip('/')) or 'x'
        if not gen.is_valid_utf8(nm) or nm in ('.', '..') or '/' in nm:
            continue
        names = trash_names(nm)
        if not names:
            continue
        have = set(nd['p'] for nd in L.nodes)
        if rng.random() < 0.08 and len(nm.encode('utf-8')) < 200:
            # a crowded trash: the name and its first 99 numbered variants all
            # belong to complete older entries (trash-put then switches to
            # random suffixes)
            for td in cands:
                if any(h.startswith(td + '/files/' + nm) for h in have):
                    continue
                L.add(world.ensure_trash_dirs(td))
                for j in range(100):
                    nmj = nm if j == 0 else '%s_%d' % (nm, j)
                    L.add(world.trash_nodes(
                        td, nmj, world.trashinfo_text('crowd/%d' % j,
                                                      '2003-03-03T03:03:03'),
                        [{'p': '', 't': 'f', 'c': 'crowd %d' % j}]))
            continue
        for td in cands:
            nm = rng.choice(names)
            if rng.random() < 0.6 and (td + '/files/' + nm) not in have \
                    and not any(h.startswith(td + '/files/' + nm + '/')
                                for h in have):
                L.add(world.ensure_trash_dirs(td))
                if rng.random() < 0.25 and \
                        (td + '/info/' + nm + '.trashinfo') not in have:
                    L.add({'p': td + '/info/' + nm + '.trashinfo', 't': 'f',
                           'c': world.trashinfo_text('stale/info', '2002-02-02T02:02:02')})
                    continue
                if rng.random() < 0.3 and \
                        (td + '/info/' + nm + '.trashinfo') not in have:
                    # a COMPLETE old entry whose payload is a dangling
                    # symlink: os.path.exists() says the name is free
                    L.add({'p': td + '/info/' + nm + '.trashinfo', 't': 'f',
                           'c': world.trashinfo_text('old/dangling', '2002-02-02T02:02:02')})
                    L.add({'p': td + '/files/' + nm, 't': 'l',
                           'to': 'nowhere-%d' % index})
                    continue
                kind = rng.choice(['file', 'dir_empty', 'tree', 'link_dangling'])
                for nd in gen.entry_nodes(rng, td + '/files/' + nm, kind,
                                          'stale%d' % index):
                    L.add(nd)


def add_hostile_permissions(L, rng, args):
    """permission bits that make an operation fail for an ordinary owner:
    a read-only parent directory (the entry cannot be renamed away), a
    read-only directory as the entry itself, a home trash whose files/ or
    info/ is read-only (the next candidate must be tried, or failure
    reported).  returns the variant used, or None"""
    byp = dict((nd['p'], nd) for nd in L.nodes)
    real = [a for a in args if a.get('rel') and a['rel'] in byp]
    variant = rng.choice(['ro-parent', 'ro-dir-entry', 'ro-trash-files',
                          'ro-trash-info', 'ro-trash-dir', 'ro-tree',
                          'sticky-foreign'])
    if variant == 'sticky-foreign' and real:
        # somebody else's entry in somebody else's sticky, world-writable
        # directory (/tmp-like): readable, but rename and unlink answer EPERM
        a = rng.choice(real)
        par = os.path.dirname(a['rel'])
        if par in byp and byp[par].get('t') == 'd' and \
                byp[a['rel']].get('t') in ('f', 'd'):
            byp[par]['m'] = 0o1777
            byp[par]['o'] = [54321, 54321]
            for nd in L.nodes:
                if nd['p'] == a['rel'] or nd['p'].startswith(a['rel'] + '/'):
                    nd['o'] = [54322, 54322]
            return variant
    if variant == 'ro-tree':
        # chmod -R a-w on the tree around it: the entry is a read-only
        # directory AND its parent is read-only (two obstacles, one cure each)
        dirs = [a for a in real if byp[a['rel']].get('t') == 'd' and
                byp.get(os.path.dirname(a['rel']), {}).get('t') == 'd']
        if dirs:
            a = rng.choice(dirs)
            byp[a['rel']]['m'] = 0o555
            byp[os.path.dirname(a['rel'])]['m'] = 0o555
            return variant
    if variant == 'ro-parent' and real:
        a = rng.choice(real)
        par = os.path.dirname(a['rel'])
        if par in byp and byp[par].get('t') == 'd':
            byp[par]['m'] = 0o555
            return variant
    if variant == 'ro-dir-entry':
        dirs = [a for a in real if byp[a['rel']].get('t') == 'd']
        if dirs:
            byp[rng.choice(dirs)['rel']]['m'] = 0o555
            return variant
    if variant.startswith('ro-trash'):
        ht = L.home_trash()
        if ht:
            L.add(world.ensure_trash_dirs(ht))
            byp = dict((nd['p'], nd) for nd in L.nodes)
            tgt = {'ro-trash-files': ht + '/files', 'ro-trash-info': ht + '/info',
                   'ro-trash-dir': ht}[variant]
            if tgt in byp:
                byp[tgt]['m'] = 0o555
                return variant
    return None


def add_partial_trash_dirs(L, rng, p=0.2, extra_dirs=()):
    """half set-up trash directories (the dir alone, only info/, only files/):
    the missing parts must be created on demand, the directory still used"""
    if rng.random() >= p:
        return
    cands = list(extra_dirs)
    ht = L.home_trash()
    if ht:
        cands.append(ht)
    for v in L.mounts:
        if L.alt_state.get(v) in ('absent', 'dir'):
            cands.append(L.vol_path(v, '.Trash-%d' % L.uid))
        if L.top_state.get(v) == 'sticky':
            cands.append(L.vol_path(v, '.Trash/%d' % L.uid))
    have = set(nd['p'] for nd in L.nodes)
    for td in cands:
        if td in have or any(h.startswith(td + '/') for h in have):
            continue
        if rng.random() < 0.5:
            L.add({'p': td, 't': 'd', 'm': 0o700})
            part = rng.choice(['', 'info', 'files'])
            if part:
                L.add({'p': td + '/' + part, 't': 'd', 'm': 0o700})


def gen_inside_case(rng, index, tier):
    """trash-put started INSIDE the directory it is asked to trash, which is
    named by climbing out of it (cd build && trash-put ../build): the rename
    moves the process's own working directory along"""
    L = gen.make_layout(rng)
    workdirs = setup_workdirs(L, rng)
    arg = add_entry(L, rng, workdirs, 0, 'c%dins' % index, set(), kinds=['tree'],
                    spellings=['rel'], name_kw={'allow_bad_utf8': False})
    case = L.desc()
    case['kind'] = 'cwd-inside'
    case['args'] = [arg]
    case['depth'] = rng.choice([0, 0, 1])
    case['trail'] = rng.choice(['', '', '/'])
    case['opts'] = rng.choice([[], [], ['-v']])
    return case


def run_inside(case):
    out = {'violations': [], 'obs': {}, 'features': ['cwd-inside']}
    a = case['args'][0]
    with world.World(case) as w:
        P = a['rel']
        top = w.abs(P)
        cwd = top
        climb = '..'
        if case['depth'] and os.path.isdir(top + '/sub0'):
            cwd = top + '/sub0'
            climb = '../..'
        name = os.path.basename(P)
        if name.startswith('-'):
            climb = './' + climb
        spelled = climb + '/' + name + case['trail']
        s0 = w.snapshot()
        r = run.run(w, 'put', list(case['opts']) + ['--', spelled], stdin=b'', cwd=cwd)
        s1 = w.snapshot()
        if r.timeout or r.audit_ok() is False:
            out['verdict'] = 'inconclusive'
            out['why'] = 'watchdog' if r.timeout else 'audit mismatch'
            return out
        A = putcheck.analyze(s0, s1, [P])
        o = A.outcomes[0]
        out['obs']['puts_from_inside_the_argument'] = 1
        ok = (o['state'] == 'TRASHED' and r.exit == 0) or \
            (o['state'] == 'UNTOUCHED' and r.exit != 0)
        if not ok or A.frame:
            out['violations'].append({
                'mechanism': 'cwd-inside:%s/exit%s' % (o['state'], 0 if r.exit == 0 else 'N'),
                'detail': {'run': r.brief(), 'cwd': cwd, 'spelled': spelled,
                           'outcome': dict((k, v) for k, v in o.items() if k != 'diff'),
                           'frame': [(k, p_) for k, p_, x, y in A.frame[:6]]}})
    out['nontrivial'] = True
    out['replayable'] = False
    out['verdict'] = 'violation' if out['violations'] else 'ok'
    return out


def gen_case(rng, index, tier):
    if index % 40 == 21:
        return gen_inside_case(rng, index, tier)
    L = gen.make_layout(rng)
    dotcase = rng.random() < 0.22
    args = []
    workdirs = setup_workdirs(L, rng)
    n_args = 1 if dotcase else rng.choice([1, 1, 2, 2, 3])
    used = set()
    for a in range(n_args):
        tag = 'c%da%d' % (index, a)
        if dotcase:
            args.append(add_dot_entry(L, rng, workdirs, tag))
        else:
            arg = add_entry(L, rng, workdirs, a, tag, used)
            sp = arg['spelling']
            if sp.startswith('-') and rng.random() < 0.7:
                arg['spelling'] = './' + sp
            args.append(arg)
    # an argument reached through 'link/..' gets a companion in the directory
    # its lexical reading names (before or after it)
    for arg in list(args):
        if arg.get('lexdir') and rng.random() < 0.6:
            comp = add_companion(L, rng, arg, len(args), 'c%d' % index, used)
            if comp:
                i = args.index(arg)
                args.insert(i + rng.choice([0, 1]), comp)
    for arg in list(args):
        if arg.get('via_link') and rng.random() < 0.5 and \
                not any(a.get('rel') == arg['via_link'] for a in args):
            args.insert(args.index(arg) + 1, add_link_companion(L, rng, arg))
    # sometimes a nonexistent argument too
    if rng.random() < 0.2:
        args.insert(rng.randrange(len(args) + 1),
                    {'spelling': 'no-such-' + str(index), 'class': 'missing'})
    opts, stdin, env_extra, optclass = pick_options(L, rng, workdirs, args, index)
    # pre-existing trash content in the home trash (name collisions)
    if rng.random() < 0.35:
        ht = L.home_trash()
        if ht:
            L.add(world.ensure_trash_dirs(ht))
            for a in args:
                nm = os.path.basename(a['spelling'].rstrip('/')) or 'x'
                if gen.is_valid_utf8(nm) and nm not in ('.', '..') and \
                        len(nm.encode()) < 240 and rng.random() < 0.7:
                    L.add(world.trash_nodes(
                        ht, nm, world.trashinfo_text('/old/' + spec.pct_encode(
                            nm.encode()), '2001-01-01T00:00:00'),
                        [{'p': '', 't': 'f', 'c': 'old payload %d' % index}]))
    dirs_ = [a for a in args if a.get('kind') in ('tree', 'dir_empty') and
             a.get('class') in ('rel', 'abs', 'dotslash', 'trail1', 'abs_trail')]
    if dirs_ and rng.random() < 0.04:
        # the trash directory to use lies INSIDE the directory to be trashed:
        # the move is impossible (EINVAL), the argument must stay as it is
        # and nothing may be left behind in that trash directory
        a_in = rng.choice(dirs_)
        inner = a_in['rel'] + '/' + rng.choice(['T', '.Trash-inside', 'my trash'])
        L.add(world.ensure_trash_dirs(inner))
        opts = ['--trash-dir', '@/' + inner]
        optclass = '--trash-dir-inside-argument'
        stdin = ''
    add_stale(L, rng, args, index)
    add_partial_trash_dirs(L, rng)
    perm = add_hostile_permissions(L, rng, args) if rng.random() < 0.08 else None
    case = L.desc()
    if perm:
        # run without the capabilities that let root ignore mode bits
        case['drop_caps'] = True
        case['perm'] = perm
    case['env'] = dict(case['env'], **env_extra)
    case['args'] = args
    case['opts'] = opts
    case['stdin'] = stdin
    case['optclass'] = optclass
    if index % 12 == 5 and optclass != '--trash-dir-inside-argument':
        case['interrupts'] = 3
    if any(not a['spelling'] for a in args):
        return None
    return case


def trash_dir_base(case, w, tdir_abs):
    """the directory against which a relative Path= of an entry in tdir_abs
    is to be read: the volume of the trash dir AS THE USER NAMED IT (for a
    --trash-dir reached through a symlink that is the volume of the link,
    which is what trash-list/-restore --trash-dir <same path> use too), and
    the path to hand to the readers"""
    if '--trash-dir' in case.get('opts', []):
        given = world.subst(case['opts'][case['opts'].index('--trash-dir') + 1], w.R)
        if os.path.realpath(given) == os.path.realpath(tdir_abs):
            return spec.volume_of(os.path.normpath(given), w.mounts), given
    return spec.volume_of(os.path.realpath(tdir_abs), w.mounts), tdir_abs


def designated(w, cwd, spelling):
    """rel path (in R) of the entry an argument designates, or None"""
    s = world.subst(spelling, w.R)
    p = s if s.startswith('/') else os.path.join(cwd, s)
    stripped = p.rstrip('/') or '/'
    if not os.path.lexists(stripped):
        return None
    return w.rel(spec.real_entry(stripped))


def run_case(case):
    if case.get('kind') == 'cwd-inside':
        return run_inside(case)
    out = {'violations': [], 'obs': {}, 'features': []}
    with world.World(case) as w:
        cwd = w.cwd()
        des = []
        for a in case['args']:
            P = designated(w, cwd, a['spelling'])
            des.append(P)
        s0 = w.snapshot()
        argv = [world.subst(o, w.R) for o in case['opts']]
        argv.append('--')
        argv += [world.subst(a['spelling'], w.R) for a in case['args']]
        plan = None
        if case.get('index', 0) % 5 == 1 and not fallback_on(case):
            # files/ and info/ of every trash directory can be searched but
            # not LISTED (mode 0300, a flaky network file system): trash-put
            # looks names up one by one and never needs a listing.  (Without
            # the copy fallback the unchanged code lists nothing at all.)
            plan = {'pfaults': [{'ops': ['listdir', 'scandir'], 'errno': 13,
                                 're': r'/(\.Trash(-\d+|/\d+)|Trash|[^/]*trash[^/]*)/(files|info)$'}]}
            out['obs']['runs_with_unlistable_trash_dirs'] = 1
        r = run.run(w, 'put', argv, stdin=case.get('stdin', '').encode(),
                    plan=plan)
        s1 = w.snapshot()
        res = judge(case, w, r, s0, s1, des, out)
    if case.get('interrupts') and res.get('verdict') == 'ok' and not r.timeout:
        interrupted_runs(case, r, res)
    return res


def interrupted_runs(case, ref, out):
    """the same command line interrupted (SIGINT as Python delivers it:
    KeyboardInterrupt when a system call returns) after a few of its mutating
    operations: the run fails, and what it says about itself must still be
    true - an argument is whole in the trash WITH its .trashinfo, or still in
    place; a .trashinfo whose payload never arrived is all that may be left
    over (C05 speaks about that one)"""
    import random
    ks = [e['k'] for e in ref.events if e['c'] == 'M']
    rng = random.Random(len(ks) * 7919 + len(case['args']))
    for k in rng.sample(ks, min(len(ks), case['interrupts'])):
        with world.World(case) as w:
            cwd = w.cwd()
            des = [designated(w, cwd, a['spelling']) for a in case['args']]
            s0 = w.snapshot()
            argv = [world.subst(o, w.R) for o in case['opts']] + ['--'] + \
                [world.subst(a['spelling'], w.R) for a in case['args']]
            r = run.run(w, 'put', argv, stdin=case.get('stdin', '').encode(),
                        plan={'interrupt_after': k})
            s1 = w.snapshot()
            if r.timeout or not r.crash or r.crash.get('why') != 'interrupt-after':
                continue
            out['obs']['interrupted_runs'] = out['obs'].get('interrupted_runs', 0) + 1
            A = putcheck.analyze(s0, s1, des)
            for a, o in zip(case['args'], A.outcomes):
                if o['state'] not in ('TRASHED', 'UNTOUCHED', 'NOTHING') and \
                        not (o['state'] == 'ALTERED' and o.get('only_symlink_mtime')) \
                        and not fallback_on(case):
                    out['violations'].append({
                        'mechanism': 'interrupted:%s/%s' % (o['state'], a['class']),
                        'detail': dict(detail(case, w, r, o, A),
                                       interrupt=r.crash)})
            bad = [f for f in A.frame if f[0] in ('orphan-payload', 'unattributed-pair',
                                                  'removed', 'modified')]
            if bad and not fallback_on(case) and not out['violations']:
                out['violations'].append({
                    'mechanism': 'interrupted:frame:' + '+'.join(sorted(set(f[0] for f in bad))),
                    'detail': dict(detail(case, w, r, None, A), interrupt=r.crash)})
        if out['violations']:
            out['verdict'] = 'violation'
            break


def judge(case, w, r, s0, s1, des, out):
    obs = out['obs']
    if r.timeout:
        out['verdict'] = 'inconclusive'
        out['why'] = 'watchdog'
        return out
    if r.audit_ok() is False:
        out['verdict'] = 'inconclusive'
        out['why'] = 'audit/wrapper mismatch %s' % (r.summary,)
        return out
    A = putcheck.analyze(s0, s1, des)
    err = r.errtext()
    nmut = len(r.mut())
    obs['mutating_events'] = nmut
    obs['events'] = len(r.events)
    obs['exit_nonzero'] = 1 if r.exit else 0
    obs['traceback'] = 1 if 'Traceback' in err else 0
    for e in r.events:
        if e['c'] == 'M':
            obs['op_' + e['op']] = obs.get('op_' + e['op'], 0) + 1
    out['features'].append('opt:' + case['optclass'])
    out['features'].append('vols:%d' % len(case['mounts']))
    if case.get('perm'):
        out['features'].append('perm:' + case['perm'])
        out['obs']['hostile_permission_runs'] = 1
    refused = 0
    for a, P, o in zip(case['args'], des, A.outcomes):
        out['features'].append('sp:' + a['class'])
        if 'kind' in a:
            out['features'].append('kind:' + a['kind'])
        st = o['state']
        obs['args'] = obs.get('args', 0) + 1
        rep = putcheck.reported_failed(
            err, putcheck.stderr_encode(world.subst(a['spelling'], w.R)))
        if rep:
            refused += 1
        if st == 'TRASHED':
            obs['args_trashed'] = obs.get('args_trashed', 0) + 1
            if rep:
                out['violations'].append({
                    'mechanism': 'reported-failure-but-trashed/' + a['class'],
                    'detail': detail(case, w, r, o, A)})
        elif st == 'UNTOUCHED':
            obs['args_untouched'] = obs.get('args_untouched', 0) + 1
        elif st == 'NOTHING':
            obs['args_nothing'] = obs.get('args_nothing', 0) + 1
        else:
            out['violations'].append({
                'mechanism': mechanism(st, a, rep, r, o, case),
                'detail': detail(case, w, r, o, A)})
    if A.frame and fallback_on(case) and not out['violations'] and \
            all(o['state'] in ('UNTOUCHED', 'NOTHING', 'TRASHED') for o in A.outcomes) and \
            sorted(set(f[0] for f in A.frame if not (
                f[0] == 'added' and any(g[1].startswith(f[1] + '/') for g in A.frame)
            ))) == ['orphan-payload'] and r.exit != 0 and \
            any(e['op'] == 'rename' and e.get('r') in ('V', 'E') and e.get('e') == 18
                for e in r.events):
        # F12 (known under C17) reached without fault injection: the
        # cross-device copy itself failed (e.g. a named pipe in the tree)
        out['violations'].append({
            'mechanism': 'fallback-copy-fault-leaves-orphan-payload',
            'detail': detail(case, w, r, None, A)})
    elif A.frame:
        kinds = sorted(set(f[0] for f in A.frame))
        # frame damage already explained by a bad per-argument outcome is
        # reported once, under that outcome
        if not out['violations']:
            out['violations'].append({
                'mechanism': 'frame:' + '+'.join(kinds) + '/' +
                '+'.join(sorted(set(a['class'] for a in case['args']))),
                'detail': detail(case, w, r, None, A)})
    if r.escapes():
        out['violations'].append({
            'mechanism': 'fence-escape',
            'detail': {'escapes': r.escapes()[:5], 'run': r.brief()}})
    out['nontrivial'] = any(P is not None for P in des) and \
        (nmut > 0 or refused > 0)
    out['sample_obs'] = {'exit': r.exit, 'outcomes': [o['state'] for o in A.outcomes],
                         'stderr': err[-300:]}
    out['verdict'] = 'violation' if out['violations'] else 'ok'
    return out


def fallback_on(case):
    return '--home-fallback' in case['opts'] and \
        case['env'].get('TRASH_ENABLE_HOME_FALLBACK') == '1'


def mechanism(state, a, reported, r, o=None, case=None):
    cls = a['class']
    if state == 'ALTERED' and o and o.get('only_symlink_mtime') and \
            case and fallback_on(case) and \
            any(e['op'] == 'symlink' for e in r.mut()):
        # cross-device copy by shutil.move: os.symlink + os.unlink, the
        # link's own mtime is not carried over
        return 'fallback-copy-loses-symlink-mtime'
    if state in ('DUPLICATED', 'ALTERED', 'LOST') and reported and r.exit != 0 \
            and case and fallback_on(case) and o and o.get('P') and \
            any(e['op'] in ('rename', 'replace') and e.get('r') in ('V', 'E') and
                e.get('e') == 18 for e in r.events) and \
            any(e['op'] in ('rmdir', 'unlink', 'remove') and
                e.get('r') in ('V', 'E') and e.get('e') in (16, 13, 1, 30)
                for e in r.events):
        # the F12 finding with a natural error: the cross-device copy
        # succeeds, the deletion of the source fails (a busy mount point
        # inside it, a read-only parent directory); .trashinfo withdrawn,
        # copy left as an orphan, source (partly) still there, failure reported
        return 'fallback-copy-fault-leaves-orphan-payload'
    exitc = 'exit0' if r.exit == 0 else 'exitN'
    return '%s/%s/%s%s' % (state, cls, exitc, '/reported' if reported else '')


def detail(case, w, r, o, A):
    return {'run': r.brief(), 'outcome': o,
            'frame': [(k, p, snap.fmt_entry(x), snap.fmt_entry(y))
                      for k, p, x, y in A.frame[:10]],
            'outcomes': [x.get('state') for x in A.outcomes],
            'root': w.R}
