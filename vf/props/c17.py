"""C17 - under file-system errors trash-put terminates, falls back, and
reports honestly: errno injection at every fallible operation."""
import errno
import os

from .. import gen, inject, putcheck, run, snap, spec, trashio, world
from . import c01

ID = 'C17'
E = errno
ERRNOS = {
    'mkdir': [E.EACCES, E.EROFS, E.ENOSPC, E.EIO, E.ENAMETOOLONG, E.EMFILE, E.EEXIST,
              E.ENOENT, E.ENOTDIR],
    'open': [E.EACCES, E.EROFS, E.ENOSPC, E.EIO, E.ENAMETOOLONG, E.EMFILE, E.EEXIST,
             E.ENOENT, E.ELOOP],
    'bopen': [E.EACCES, E.EIO, E.EMFILE, E.ENOSPC],
    'write': [E.ENOSPC, E.EIO, E.EDQUOT],
    'fwrite': [E.ENOSPC, E.EIO, E.EDQUOT, E.EFBIG],
    'close': [E.EIO],
    'rename': [E.EACCES, E.EPERM, E.EXDEV, E.EROFS, E.EIO, E.EBUSY, E.ENOSPC,
               E.ENOENT, E.ENOTDIR, E.EMLINK],
    'replace': [E.EACCES, E.EIO],
    'unlink': [E.EACCES, E.EPERM, E.EROFS, E.EIO, E.ENOENT],
    'remove': [E.EACCES, E.EPERM, E.EROFS, E.EIO, E.ENOENT],
    'rmdir': [E.EACCES, E.EPERM, E.EROFS, E.EIO],
    'stat': [E.EACCES, E.EIO, E.ELOOP],
    'lstat': [E.EACCES, E.EIO, E.ELOOP],
    'listdir': [E.EACCES, E.EIO],
    'scandir': [E.EACCES, E.EIO],
    'readlink': [E.EACCES, E.EIO],
    'symlink': [E.EACCES, E.ENOSPC, E.EIO],
    'sendfile': [E.ENOSPC, E.EIO],
    'chmod': [E.EPERM, E.EIO],
    'utime': [E.EPERM, E.EIO],
}
STEP_BUDGET = 20000


def config(tier):
    return {
        'level': 'fault_enumeration',
        'cases': 32 if tier == 'quick' else 1500,
        'budget_s': 50 if tier == 'quick' else 575,
        'grace_s': 60,
        'floors': {'cases': 20, 'fault_plans': 1500, 'faults_delivered': 1200,
                   'one_shot_plans': 1000, 'persistent_plans': 60,
                   'pair_plans': 100, 'terminated': 1500},
        'rule': 'case = scenario (entry kind x candidate: home / .Trash/$uid / '
                '.Trash-$uid / fallback) ; fault plans: (a) one-shot - EVERY '
                'event k of the reference run x every errno of the '
                "operation's representative set; (b) persistent - every "
                'mutating op / only creates / only writes under one candidate '
                'dir fails with one errno; (c) pairs of one-shot faults '
                '(sampled in quick, all pairs of mutating events for short '
                'scenarios in thorough); non-trivial = the fault was delivered '
                '(trace shows the injected errno); distinct = (scenario, plan)',
        'assumptions': ['faults are error returns (no short writes)',
                        'termination = within %d file-system events' % STEP_BUDGET],
    }


def gen_case(rng, index, tier):
    where = rng.choice(['home', 'top', 'alt', 'alt', 'fallback', 'home'])
    vols = ['v1'] if where != 'home' or rng.random() < 0.5 else []
    top = {'v1': 'sticky'} if where in ('top',) else \
        {'v1': rng.choice(['sticky', 'absent'])} if where == 'alt' else \
        {'v1': 'file'} if where == 'fallback' else {}
    alt = {'v1': 'file'} if where == 'fallback' else {}
    L = gen.make_layout(rng, volumes=vols, home_own_volume=False, xdg='unset',
                        top_states=top, alt_states=alt, trash_volumes_env=False)
    workdirs = c01.setup_workdirs(L, rng, cwd_vol='')
    vol = '' if where == 'home' else 'v1'
    kinds = ['file', 'empty', 'tree', 'link_dangling', 'dir_empty'] \
        if where != 'fallback' else ['file', 'tree', 'link_dangling']
    arg = c01.add_entry(L, rng, workdirs, 0, 'c%d' % index, set(), kinds=kinds,
                        spellings=['rel', 'abs'], vol=vol,
                        name_kw={'allow_bad_utf8': False})
    if arg['spelling'].startswith('-'):
        arg['spelling'] = './' + arg['spelling']
    if rng.random() < 0.3:
        # the entry (and its directory) belong to a uid/gid without passwd or
        # group entry: a foreign disk, an unpacked archive, a deleted account
        for nd in L.nodes:
            if nd['p'] == arg['rel'] or nd['p'].startswith(arg['rel'] + '/') or \
                    nd['p'] == os.path.dirname(arg['rel']):
                nd['o'] = [54321, 54322]
    state = rng.choice(['first-use', 'existing', 'collision', 'orphan-dir',
                        'stale-info', 'dangling-pair'])
    if where in ('home', 'fallback'):
        tdir = L.home_trash()
    elif where == 'top':
        tdir = 'v1/.Trash/%d' % L.uid
    else:
        tdir = 'v1/.Trash-%d' % L.uid
    if state != 'first-use':
        L.add(world.ensure_trash_dirs(tdir))
    nm = os.path.basename(arg['rel'])
    if state == 'orphan-dir' and len(nm.encode('utf-8', 'surrogateescape')) < 200:
        L.add({'p': tdir + '/files/' + nm, 't': 'd', 'm': 0o755})
        L.add({'p': tdir + '/files/' + nm + '/inner', 't': 'f', 'c': 'inner'})
    if state == 'dangling-pair' and len(nm.encode('utf-8', 'surrogateescape')) < 200:
        L.add({'p': tdir + '/info/' + nm + '.trashinfo', 't': 'f',
               'c': world.trashinfo_text('old/dangling', '2001-01-01T00:00:00')})
        L.add({'p': tdir + '/files/' + nm, 't': 'l', 'to': 'nowhere'})
    if state == 'stale-info' and len(nm.encode('utf-8', 'surrogateescape')) < 200:
        L.add({'p': tdir + '/info/' + nm + '.trashinfo', 't': 'f',
               'c': world.trashinfo_text('stale/x', '2001-01-01T00:00:00')})
    if state == 'collision' and len(nm.encode('utf-8', 'surrogateescape')) < 200:
        L.add(world.trash_nodes(
            tdir, nm, world.trashinfo_text('old/x', '2001-01-01T00:00:00'),
            [{'p': '', 't': 'f', 'c': 'old payload'}]))
    # the mode options change how a MISSING argument is treated, never how a
    # failure to trash an existing one is reported
    opts = rng.choice([[], [], [], ['-f'], ['-f'], ['-v'], ['-fv'], ['-rf'],
                       ['--force', '-vv']])
    opts = list(opts)
    env = {}
    if where == 'fallback':
        opts.append('--home-fallback')
        env['TRASH_ENABLE_HOME_FALLBACK'] = '1'
    case = L.desc()
    case['env'] = dict(case['env'], **env)
    case['args'] = [arg]
    case['opts'] = opts
    case['where'] = where
    case['state'] = state
    case['tdir'] = tdir
    case['seed'] = rng.getrandbits(30)
    case['pairs'] = 8 if tier == 'quick' else 60
    case['all_pairs'] = tier != 'quick'
    return case


def judge(case, w, r, s0, s1, plan_label, out, delivered_events):
    """the C17 oracle on one faulted run.  returns True if clean"""
    obs = out['obs']
    a = case['args'][0]
    P = a['rel']
    spelled = world.subst(a['spelling'], w.R)

    def viol(mech, **kw):
        d = {'plan': plan_label, 'run': r.brief(), 'where': case['where'],
             'state': case['state'],
             'faults': [(e['k'], e['op'], e.get('e'),
                         [(p or '').replace(w.R, '@R') for p in e['p']])
                        for e in delivered_events[:6]]}
        d.update(kw)
        out['violations'].append({'mechanism': mech, 'detail': d})
        return False

    if r.exit == 98 or (r.crash and r.crash.get('why') == 'budget'):
        return viol('non-termination/%s' % fault_class(delivered_events, w, case))
    if r.timeout:
        out.setdefault('incon', []).append('watchdog under %s' % (plan_label,))
        return True
    obs['terminated'] = obs.get('terminated', 0) + 1
    A = putcheck.analyze(s0, s1, [P])
    # skeleton directories holding a leftover are reported with the leftover
    A.frame = [f for f in A.frame
               if not (f[0] == 'added' and
                       any(g[1].startswith(f[1] + '/') for g in A.frame))]
    o = A.outcomes[0]
    st = o['state']
    # tolerance: the fault hit the cleanup itself
    cleanup_fault = [e for e in delivered_events
                     if (e['op'] in ('unlink', 'remove', 'rmdir') or
                         # remove_file() probes with lexists() first: a fault
                         # on that probe is a fault of the withdrawal too
                         (e['op'] in ('lstat', 'stat') and e['p'] and
                          (e['p'][0] or '').endswith('.trashinfo')))]
    tb = 'Traceback' in r.errtext()
    if tb:
        # an uncaught OSError is a (crude) failure report: non-zero exit and
        # the error on stderr; the state must still satisfy C01
        obs['tracebacks'] = obs.get('tracebacks', 0) + 1
    reported = tb or putcheck.reported_failed(
        r.errtext(), putcheck.stderr_encode(spelled))
    ok_fb = st == 'ALTERED' and o.get('only_symlink_mtime') and \
        case['where'] == 'fallback'
    stream_fault = bool(delivered_events) and delivered_events[0]['op'] == 'stderr-write'
    if st == 'TRASHED' or ok_fb:
        obs['outcome_trashed'] = obs.get('outcome_trashed', 0) + 1
        if (r.exit != 0 or reported) and not stream_fault:
            return viol('trashed-but-failure-reported/%s' %
                        fault_class(delivered_events, w, case))
        if A.frame and not ok_fb:
            if cleanup_tolerated(A, cleanup_fault, w):
                obs['cleanup_fault_tolerated'] = obs.get('cleanup_fault_tolerated', 0) + 1
                return True
            kinds = sorted(set(f[0] for f in A.frame))
            return viol('trashed-with-leftovers:%s/%s' % (
                '+'.join(kinds), fault_class(delivered_events, w, case)),
                frame=[(k, p) for k, p, x, y in A.frame[:6]])
        return True
    if st == 'UNTOUCHED':
        obs['outcome_untouched'] = obs.get('outcome_untouched', 0) + 1
        if r.exit == 0:
            return viol('untouched-but-exit0/%s' %
                        fault_class(delivered_events, w, case))
        if not reported and not stream_fault:
            return viol('failure-without-diagnostic/%s' %
                        fault_class(delivered_events, w, case))
        if A.frame:
            if cleanup_tolerated(A, cleanup_fault, w):
                obs['cleanup_fault_tolerated'] = obs.get('cleanup_fault_tolerated', 0) + 1
                return True
            # leftovers other than .trashinfo files whose own removal was the
            # faulted operation
            faulted_infos = set(
                f[1] for f in A.frame if f[0] == 'stray-info' and
                any((w.R + '/' + f[1]) in (e['p'] or []) for e in cleanup_fault))
            rest = []
            for f in A.frame:
                if f[0] == 'stray-info' and f[1] in faulted_infos:
                    continue
                if f[0] == 'unattributed-pair' and \
                        putcheck.info_for_payload(f[1]) in faulted_infos:
                    rest.append(('orphan-payload',) + tuple(f[1:]))
                else:
                    rest.append(f)
            kinds = sorted(set(f[0] for f in rest))
            if case['where'] == 'fallback' and kinds == ['orphan-payload'] \
                    and copy_phase(r):
                return viol('fallback-copy-fault-leaves-orphan-payload',
                            fault=fault_class(delivered_events, w, case),
                            frame=[(k, p) for k, p, x, y in A.frame[:6]])
            return viol('untouched-with-leftovers:%s/%s' % (
                '+'.join(kinds), fault_class(delivered_events, w, case)),
                frame=[(k, p) for k, p, x, y in A.frame[:6]])
        return True
    # neither: allowed only when the fault hit the deletion phase of a copy /
    # the cleanup, and then the entry must be complete somewhere
    n0 = putcheck.norm_sig(s0)
    n1 = putcheck.norm_sig(s1)
    sig0 = snap.subtree(n0, P)
    complete = snap.subtree(n1, P) == sig0 or any(
        putcheck._content_equal(snap.subtree(n1, q), sig0)
        for q in n1 if putcheck.is_payload_root(q) and q not in n0)
    if cleanup_fault and complete and case['where'] == 'fallback':
        obs['cleanup_fault_tolerated'] = obs.get('cleanup_fault_tolerated', 0) + 1
        return True
    if case['where'] == 'fallback' and complete and copy_phase(r) and \
            st in ('DUPLICATED', 'CHANGED', 'LOST', 'ALTERED'):
        # F12: fault during the copy+delete of the home fallback: the info is
        # withdrawn, a (partial or complete) copy stays in files/
        return viol('fallback-copy-fault-leaves-orphan-payload',
                    fault=fault_class(delivered_events, w, case), state=st,
                    frame=[(k, p) for k, p, x, y in A.frame[:6]])
    return viol('%s/%s' % (st, fault_class(delivered_events, w, case)),
                outcome={k: v for k, v in o.items() if k != 'diff'},
                frame=[(k, p) for k, p, x, y in A.frame[:6]],
                complete_somewhere=complete)


def copy_phase(r):
    """the run went through the cross-device fallback: a rename answered
    EXDEV (by the virtual mount table) before the fault"""
    return any(e['op'] == 'rename' and e.get('r') in ('V', 'E') and e.get('e') == 18
               for e in r.events)


def cleanup_tolerated(A, cleanup_fault, w):
    """the only leftovers are .trashinfo files whose own removal was the
    operation that got the injected error"""
    if not cleanup_fault or not A.frame:
        return False
    for f in A.frame:
        if f[0] != 'stray-info':
            return False
        if not any((w.R + '/' + f[1]) in (e['p'] or []) for e in cleanup_fault):
            return False
    return True


def fault_class(events, w, case):
    """mechanism component: operation, errno name and the role of the path"""
    if not events:
        return 'no-fault'
    e = events[0]
    p = (e['p'][-1] or '') if e['p'] else ''
    rel = p.replace(w.R + '/', '')
    role = 'other'
    t = case['tdir']
    if rel.endswith('.trashinfo'):
        role = 'info'
    elif '/files/' in rel or rel.endswith('/files'):
        role = 'files'
    elif rel.endswith('/info'):
        role = 'infodir'
    elif 'Trash' in rel:
        role = 'trashdir'
    elif rel.startswith(case['args'][0]['rel']):
        role = 'source'
    n = len(events)
    return '%s:%s@%s%s' % (e['op'], errno.errorcode.get(e.get('e'), e.get('e')),
                           role, '(+%d more)' % (n - 1) if n > 1 else '')


def run_case(case):
    import random
    rng = random.Random(case['seed'])
    out = {'violations': [], 'obs': {}, 'features': []}
    obs = out['obs']
    argv = list(case['opts']) + ['--', case['args'][0]['spelling']]
    sc = inject.Scenario(case, 'put', argv, stdin=b'',
                         plan={'put_clock': '2022-02-02T02:02:02',
                               'random_seed': case['seed'],
                               'step_budget': STEP_BUDGET})
    out['features'] += ['where:' + case['where'], 'state:' + case['state'],
                        'kind:' + case['args'][0]['kind']]
    w, ref, s0, s1 = sc.execute()
    try:
        if ref.timeout or ref.audit_ok() is False:
            out['verdict'] = 'inconclusive'
            out['why'] = 'reference run: watchdog or audit mismatch'
            return out
        events = [dict(e) for e in ref.events]
        R0 = w.R
    finally:
        w.destroy()
    plans = []
    # (a) one-shot, exhaustive over events x errnos
    for e in events:
        for err in ERRNOS.get(e['op'], []):
            plans.append(('one-shot', {'faults': {str(e['k']): err}},
                          'k=%d %s %s' % (e['k'], e['op'], errno.errorcode[err])))
    # (b) persistent per candidate directory
    cands = []
    ht = case['env'].get('HOME', '@/home/u') + '/.local/share/Trash'
    cands.append(ht)
    cands.append('@/v1/.Trash')
    cands.append('@/v1/.Trash-%d' % case['uid'])
    for cdir in cands:
        for err in (E.EACCES, E.EROFS, E.ENOSPC, E.EIO, E.ENAMETOOLONG,
                    E.EMFILE, E.EDQUOT):
            for mode in ('all-mutating', 'creates', 'writes', 'excl-create'):
                pf = {'prefix': cdir, 'errno': err}
                if mode == 'all-mutating':
                    pf['cls'] = 'M'
                elif mode == 'creates':
                    pf['ops'] = ['mkdir', 'open', 'symlink', 'bopen']
                elif mode == 'writes':
                    pf['ops'] = ['write', 'close', 'sendfile']
                else:
                    pf['ops'] = ['open']
                    pf['excl'] = True
                plans.append(('persistent', {'pfaults': [pf]},
                              'persistent %s %s under %s' % (
                                  mode, errno.errorcode[err], cdir)))
        # ... and every LOOK-UP under files/ or under the whole candidate
        # fails (a directory that cannot be searched, a stale handle): no
        # name can be examined, which is not "every name is taken"
        for err in (E.EACCES, E.EIO):
            for sub in ('/files', ''):
                plans.append(('persistent', {'pfaults': [
                    {'prefix': cdir + sub, 'errno': err,
                     'ops': ['stat', 'lstat', 'access']}]},
                    'persistent look-ups %s under %s%s' % (
                        errno.errorcode[err], cdir, sub)))
    # (c) pairs of one-shot faults on mutating events
    muts = [e for e in events if e['c'] == 'M']
    pairs = []
    for i in range(len(muts)):
        for j in range(i + 1, len(muts)):
            pairs.append((muts[i], muts[j]))
    if not case['all_pairs'] or len(pairs) > 400:
        rng.shuffle(pairs)
        pairs = pairs[:case['pairs'] if not case['all_pairs'] else 400]
    for e1, e2 in pairs:
        x1 = rng.choice(ERRNOS.get(e1['op'], [E.EIO]))
        x2 = rng.choice(ERRNOS.get(e2['op'], [E.EIO]))
        plans.append(('pair', {'faults': {str(e1['k']): x1, str(e2['k']): x2}},
                      'k=%d %s %s + k=%d %s %s' % (
                          e1['k'], e1['op'], errno.errorcode[x1],
                          e2['k'], e2['op'], errno.errorcode[x2])))
    # (d) the diagnostic stream itself fails: the k-th write on stderr gets
    # EPIPE (the reader of 2>&1 | ... went away) or ENOSPC (full log file)
    nwrites = ref.errtext().count('\n') + 2
    for k in range(1, min(nwrites, 12) + 1):
        for err in (E.EPIPE, E.ENOSPC):
            plans.append(('stderr', {'stderr_fail_at': k, 'stderr_errno': err,
                                     # (EPIPE from a real pipe without reader)
                                     'stderr_real_pipe': err == E.EPIPE},
                          'stderr write #%d %s' % (k, errno.errorcode[err])))
    seen_mech = {}
    for kind, extra, label in plans:
        ex = dict(extra)
        if 'pfaults' in ex:
            ex['pfaults'] = [dict(pf) for pf in ex['pfaults']]
        wk = world.World(case)
        try:
            for pf in ex.get('pfaults', []):
                pf['prefix'] = world.subst(pf['prefix'], wk.R)
            a0 = wk.snapshot()
            plan = dict(sc.plan)
            plan.update(ex)
            rk = run.run(wk, 'put', [world.subst(x, wk.R) for x in argv],
                         stdin=b'', plan=plan)
            a1 = wk.snapshot()
            obs['fault_plans'] = obs.get('fault_plans', 0) + 1
            kk = {'one-shot': 'one_shot_plans', 'persistent': 'persistent_plans',
                  'pair': 'pair_plans', 'stderr': 'stderr_plans'}[kind]
            obs[kk] = obs.get(kk, 0) + 1
            delivered = [e for e in rk.events if e.get('r') == 'F']
            if kind == 'stderr':
                delivered = []
                if rk.crash and rk.crash.get('why') == 'stderr-write-failed':
                    delivered = [{'k': -1, 'op': 'stderr-write',
                                  'e': ex['stderr_errno'], 'p': [None],
                                  'text': rk.crash.get('text')}]
                    obs['stderr_faults_delivered'] = obs.get('stderr_faults_delivered', 0) + 1
            if delivered:
                obs['faults_delivered'] = obs.get('faults_delivered', 0) + 1
                nv = len(out['violations'])
                judge(case, wk, rk, a0, a1, label, out, delivered)
                # keep one witness per mechanism per case
                if len(out['violations']) > nv:
                    m = out['violations'][-1]['mechanism']
                    seen_mech[m] = seen_mech.get(m, 0) + 1
                    if seen_mech[m] > 1:
                        out['violations'].pop()
            else:
                obs['plans_not_triggered'] = obs.get('plans_not_triggered', 0) + 1
        finally:
            wk.destroy()
    obs['distinct_plans'] = len(plans)
    obs['violating_plans'] = sum(seen_mech.values())
    if out.get('incon'):
        obs['watchdogs'] = len(out['incon'])
    out['nontrivial'] = obs.get('faults_delivered', 0) > 0
    out['sample_obs'] = {'events': len(events), 'plans': len(plans),
                         'mechanisms': seen_mech}
    out['verdict'] = 'violation' if out['violations'] else 'ok'
    return out


def extra_evidence(results):
    n = sum((r.get('obs') or {}).get('distinct_plans', 0) for r in results)
    return {'fault_plans_enumerated': n,
            'one_shot_exhaustive_per_scenario': True}
