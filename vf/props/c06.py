"""C06 - trash-restore never clobbers an existing destination unless
--overwrite is given."""
import os

from .. import gen, putcheck, run, snap, spec, trashgen, trashio, trashworld, world

ID = 'C06'

DEST = ['none', 'file', 'dir_empty', 'tree', 'link_file', 'link_dir',
        'link_dangling', 'none', 'fifo', 'socket', 'chardev', 'link_self',
        'hardlink_to_payload', 'link_to_payload']


def config(tier):
    return {
        'level': 'exploration',
        'cold_sample': 3 if tier == 'quick' else 20,
        'real_sample': 4 if tier == 'quick' else 30,
        'cases': 3500 if tier == 'quick' else 50000,
        'budget_s': 45 if tier == 'quick' else 560,
        'floors': {'cases': 200, 'occupied_no_overwrite': 100,
                   'occupied_overwrite': 40, 'restored': 100},
        'rule': 'case = 1-3 trashed entries (file/dir/symlink kinds) x '
                'destination pre-occupied by nothing/file/empty dir/tree/'
                'link to file/link to dir/dangling link x --overwrite x reply '
                '(single index, ranges, lists); non-trivial = some selected '
                'destination is occupied',
        'assumptions': ['virtual mount table', 'kernel + tmpfs'],
    }


def gen_late_case(rng, index, tier):
    """the destination comes into existence while trash-restore waits for the
    reply at its prompt (the user recreated the file in another terminal, a
    second trash-restore got there first): what counts is the state at the
    moment of the move"""
    L = gen.make_layout(rng, volumes=[], xdg='unset', trash_volumes_env=False)
    tdir = L.home_trash()
    D = L.home + '/docs'
    L.add({'p': D, 't': 'd', 'm': 0o755})
    L.cwd = D
    ents = []
    for i in range(rng.choice([1, 2])):
        ents.append(trashgen.add_trashed(
            L, rng, tdir, 'n%d' % i, D + '/late %d' % i,
            '2012-0%d-01T10:00:00' % (i + 1), rng.choice(['file', 'tree', 'link_dangling']),
            'c%dl%d' % (index, i), volume_rel='', home=True))
    case = L.desc()
    case['kind'] = 'late'
    case['entries'] = ents
    case['late_kind'] = rng.choice(['file', 'dir', 'link_dangling'])
    case['pick'] = rng.randrange(len(ents))
    return case


def run_late(case):
    out = {'violations': [], 'obs': {}, 'features': ['late-destination',
                                                     'dest=' + case['late_kind']]}
    obs = out['obs']
    ents = case['entries']
    with world.World(case) as w:
        r0 = run.run(w, 'restore', [], stdin=b'')
        lst = trashio.parse_restore_listing(r0.outtext())
        e = ents[case['pick']]
        idx = [i for i, d, p in lst if p == w.abs(e['loc'])]
        if len(idx) != 1:
            out['verdict'] = 'inconclusive'
            out['why'] = 'listing does not show the crafted entries'
            return out
        dest = w.abs(e['loc'])

        def occupy():
            if case['late_kind'] == 'file':
                with open(dest, 'w') as f:
                    f.write('written while the prompt was waiting\n')
            elif case['late_kind'] == 'dir':
                os.mkdir(dest)
            else:
                os.symlink('nowhere', dest)
        s0 = putcheck.norm_sig(w.snapshot())
        r = run.run(w, 'restore', [], stdin=b'%d\n' % idx[0],
                    at_prompt=(b'What file to restore', occupy))
        s1 = putcheck.norm_sig(w.snapshot())
        if r.timeout or not r.prompt_seen:
            out['verdict'] = 'inconclusive'
            out['why'] = 'prompt not seen'
            return out
        obs['late_destination_runs'] = 1
        obs['occupied_no_overwrite'] = 1
        st = trashworld.entry_state(s0, s1, e)
        import stat as _st
        m = os.lstat(dest).st_mode
        kept = (case['late_kind'] == 'file' and _st.S_ISREG(m) and
                open(dest).read().startswith('written while')) or \
            (case['late_kind'] == 'dir' and _st.S_ISDIR(m) and not os.listdir(dest)) or \
            (case['late_kind'] == 'link_dangling' and _st.S_ISLNK(m) and
             os.readlink(dest) == 'nowhere')
        if not kept:
            out['violations'].append({
                'mechanism': 'clobbered-a-destination-that-appeared-before-the-reply/' +
                case['late_kind'], 'detail': {'run': r.brief(), 'state': st}})
        elif st != 'intact':
            out['violations'].append({
                'mechanism': 'pair-not-intact-after-refusal/late-' + case['late_kind'],
                'detail': {'run': r.brief(), 'state': st}})
        elif r.exit == 0:
            out['violations'].append({
                'mechanism': 'exit0-after-refusal/late-' + case['late_kind'],
                'detail': {'run': r.brief()}})
        else:
            obs['left_intact'] = 1
    out['nontrivial'] = True
    out['verdict'] = 'violation' if out['violations'] else 'ok'
    return out


def gen_case(rng, index, tier):
    if index % 25 == 9:
        return gen_late_case(rng, index, tier)
    vols = rng.choice([[], ['v1']])
    L = gen.make_layout(rng, volumes=vols, xdg='unset',
                        top_states={'v1': 'sticky'}, alt_states={},
                        trash_volumes_env=False)
    where = rng.choice(['home', 'home', 'alt', 'top']) if vols else 'home'
    if where == 'home':
        tdir = L.home_trash()
        volume = 'home' if 'home' in L.mounts else ''
        D = L.home + '/docs'
        home = True
    else:
        volume = 'v1'
        tdir = 'v1/.Trash-%d' % L.uid if where == 'alt' else 'v1/.Trash/%d' % L.uid
        D = 'v1/docs'
        home = False
    L.add({'p': D, 't': 'd', 'm': 0o755})
    L.cwd = D
    n = rng.choice([1, 1, 2, 3])
    entries = []
    for i in range(n):
        tag = 'c%de%d' % (index, i)
        name = rng.choice(['a', 'b c', 'd%d' % i, 'ü', 'x.txt', 'sub/deep/f',
                           'sub/g']) + str(i)
        loc = D + '/' + name
        dup = False
        if entries and rng.random() < 0.25:
            # the same path trashed twice: two entries share one original
            # location; restoring both must refuse the second
            loc = rng.choice(entries)['loc']
            dup = True
        kind = rng.choice(trashgen.PAYLOAD_KINDS)
        shown = None
        if not dup and rng.random() < 0.15:
            # a foreign .trashinfo whose Path goes through '<symlink>/..':
            # the kernel resolves D/x/lk/../N to D/y/N, lexical normalisation
            # to D/x/N
            L.add({'p': D + '/y/sub', 't': 'd'})
            L.add({'p': D + '/x', 't': 'd'})
            if not any(nd['p'] == D + '/x/lk' for nd in L.nodes):
                L.add({'p': D + '/x/lk', 't': 'l', 'to': '@/' + D + '/y/sub'})
            base_nm = 'via-link-%d' % i
            shown = D + '/x/lk/../' + base_nm
            loc = D + '/y/' + base_nm
        slash = False
        if not dup and not shown and rng.random() < 0.08:
            # a foreign .trashinfo whose Path ends in a separator (written so
            # for directories by other tools): the same destination
            shown = loc + '/'
            slash = True
        e = trashgen.add_trashed(L, rng, tdir, 'n%d' % i, shown or loc,
                                 '20%02d-01-0%dT10:00:00' % (10 + i, i + 1),
                                 kind, tag, volume_rel=volume, home=home)
        if shown:
            e['shown'] = shown
            e['loc'] = loc
        dest = rng.choice(DEST) if not dup else \
            [x for x in entries if x['loc'] == loc][0]['dest']
        while slash and dest == 'none':
            dest = rng.choice(DEST)      # (a free destination: C20's finding)
        if slash:
            e['trailing_separator'] = True
        e['dest'] = dest
        if dup:
            entries.append(e)
            continue
        dtag = tag + 'dest'
        if dest == 'file':
            L.add(gen.entry_nodes(rng, loc, 'file', dtag))
        elif dest == 'dir_empty':
            L.add(gen.entry_nodes(rng, loc, 'dir_empty', dtag))
        elif dest == 'tree':
            L.add(gen.entry_nodes(rng, loc, 'tree', dtag))
        elif dest == 'link_file':
            L.add(gen.entry_nodes(rng, D + '/tgt-' + dtag, 'file', dtag))
            L.add({'p': loc, 't': 'l', 'to': '@/' + D + '/tgt-' + dtag})
        elif dest == 'link_dir':
            L.add(gen.entry_nodes(rng, D + '/tgtd-' + dtag, 'tree', dtag))
            L.add({'p': loc, 't': 'l', 'to': '@/' + D + '/tgtd-' + dtag})
        elif dest == 'link_dangling':
            L.add({'p': loc, 't': 'l', 'to': 'nothing-' + dtag})
        elif dest == 'hardlink_to_payload':
            # the destination is another name of the trashed file itself
            pay = '%s/files/n%d' % (tdir, i)
            if e['kind'] in ('file', 'empty'):
                L.add({'p': loc, 't': 'h', 'to': pay})
            else:
                L.add({'p': loc, 't': 'l', 'to': '@/' + pay})
                e['dest'] = dest = 'link_to_payload'
        elif dest == 'link_to_payload':
            L.add({'p': loc, 't': 'l', 'to': '@/%s/files/n%d' % (tdir, i)})
        elif dest == 'link_self':
            L.add({'p': loc, 't': 'l', 'to': os.path.basename(loc)})
        elif dest in ('fifo', 'socket', 'chardev'):
            # whatever occupies the name is an existing destination
            L.add({'p': loc, 't': {'fifo': 'p', 'socket': 's', 'chardev': 'c'}[dest]})
        entries.append(e)
    case = L.desc()
    case['entries'] = entries
    case['overwrite'] = rng.random() < 0.35
    locs = [e['loc'] for e in entries]
    if len(set(locs)) != len(locs):
        # two entries for one path: what --overwrite does among them is not
        # specified; the refusal without --overwrite is
        case['overwrite'] = False
    if any(e.get('dest') == 'hardlink_to_payload' for e in entries):
        # rename(2) between two names of one inode is a no-op: with
        # --overwrite the destination "is replaced" trivially while the name
        # in files/ stays (noted in DESIGN.md); the kind is here for the
        # refusal without --overwrite
        case['overwrite'] = False
    if any(e.get('trailing_separator') for e in entries):
        case['overwrite'] = False
    case['sort'] = rng.choice([None, 'date', 'path'])
    sel = rng.choice(['one', 'one', 'all-range', 'all-list', 'rev-list'])
    if n == 1:
        sel = 'one'
    case['sel'] = sel
    case['pick'] = rng.randrange(n)
    return case


def run_case(case):
    if case.get('kind') == 'late':
        return run_late(case)
    out = {'violations': [], 'obs': {}, 'features': []}
    obs = out['obs']
    ents = case['entries']
    with world.World(case) as w:
        D = w.cwd()
        s0 = putcheck.norm_sig(w.snapshot())
        args = []
        if case['overwrite']:
            args.append('--overwrite')
        if case.get('sort'):
            args += ['--sort', case['sort']]
        r0 = run.run(w, 'restore', args, stdin=b'')
        lst = trashio.parse_restore_listing(r0.outtext())
        index_of = {}
        for i, d, p in lst:
            index_of[(p, d)] = i
        want_paths = [(w.abs(e.get('shown') or e['loc']), e['date'].replace('T', ' '))
                      for e in ents]
        if sorted(index_of) != sorted(want_paths):
            out['verdict'] = 'inconclusive'
            out['why'] = 'listing does not show the crafted entries'
            out['detail'] = {'listing': lst, 'want': want_paths,
                             'err': r0.errtext()[-400:]}
            return out
        if case['sel'] == 'one':
            order = [case['pick']]
            reply = str(index_of[want_paths[case['pick']]])
        else:
            idxs = sorted(index_of.values())
            if case['sel'] == 'all-range':
                reply = '%d-%d' % (idxs[0], idxs[-1])
                sel_idx = idxs
            elif case['sel'] == 'all-list':
                reply = ','.join(str(i) for i in idxs)
                sel_idx = idxs
            else:
                reply = ','.join(str(i) for i in reversed(idxs))
                sel_idx = list(reversed(idxs))
            by_index = dict((index_of[p], k) for k, p in enumerate(want_paths))
            order = [by_index[i] for i in sel_idx]
        r = run.run(w, 'restore', args, stdin=(reply + '\n').encode())
        s1 = putcheck.norm_sig(w.snapshot())
        if r.timeout or r.audit_ok() is False:
            out['verdict'] = 'inconclusive'
            out['why'] = 'watchdog' if r.timeout else 'audit mismatch'
            return out
        out['features'] += ['ow:%s' % case['overwrite'], 'sel:' + case['sel']]
        any_occ = False
        explained = set()

        def keys(e):
            return ('%s/info/%s.trashinfo' % (e['trash'], e['name']),
                    '%s/files/%s' % (e['trash'], e['name']))

        def intact(e):
            ik, pk = keys(e)
            return snap.subtree(s1, pk) == snap.subtree(s0, pk) and \
                s1.get(ik) == s0.get(ik)

        def gone(e):
            ik, pk = keys(e)
            return pk not in s1 and ik not in s1

        def viol(mech, e, **kw):
            d = {'run': r.brief(), 'entry': e, 'reply': reply,
                 'dest_before': snap.fmt_entry(s0.get(e['loc'])),
                 'dest_after': snap.fmt_entry(s1.get(e['loc'])),
                 'pair_intact': intact(e), 'pair_gone': gone(e)}
            d.update(kw)
            out['violations'].append({'mechanism': mech, 'detail': d})

        # sequential model of the run: who occupies each destination
        occupant = {}           # loc -> ('orig', kind) | ('entry', e)
        for e in ents:
            if e['dest'] != 'none':
                occupant[e['loc']] = ('orig', e['dest'])
        stopped = False
        expect = {}             # id(entry) -> 'restored' | 'refused' | 'free-choice'
        for k in order:
            e = ents[k]
            loc = e['loc']
            occ = occupant.get(loc)
            out['features'].append('dest:%s/%s' % (
                e['dest'] if not occ or occ[0] == 'orig' else 'earlier-restore',
                e['kind'][:4]))
            if stopped:
                expect[id(e)] = 'free-choice'
                continue
            if occ is not None and not case['overwrite']:
                any_occ = True
                obs['occupied_no_overwrite'] = obs.get('occupied_no_overwrite', 0) + 1
                if occ[0] == 'entry':
                    obs['occupied_by_earlier_restore'] = \
                        obs.get('occupied_by_earlier_restore', 0) + 1
                expect[id(e)] = 'refused'
                stopped = True
            elif occ is not None and case['overwrite']:
                any_occ = True
                obs['occupied_overwrite'] = obs.get('occupied_overwrite', 0) + 1
                isdir = (occ[0] == 'orig' and occ[1] in ('dir_empty', 'tree', 'link_dir')) \
                    or (occ[0] == 'entry' and occ[1]['kind'] in ('tree', 'dir_empty'))
                if isdir:
                    expect[id(e)] = 'unspecified-onto-dir'
                    occupant[loc] = ('unknown', None)
                elif e['kind'] in ('tree', 'dir_empty'):
                    # a trashed DIRECTORY over an existing file/symlink:
                    # rename(2) gives ENOTDIR, shutil.move then refuses
                    expect[id(e)] = 'dir-over-nondir'
                    stopped = True
                else:
                    expect[id(e)] = 'restored'
                    occupant[loc] = ('entry', e)
            else:
                expect[id(e)] = 'restored'
                occupant[loc] = ('entry', e)
        refusals = [e for e in ents if expect.get(id(e)) == 'refused']
        for k in order:
            e = ents[k]
            ex = expect[id(e)]
            ik, pk = keys(e)
            pay0 = snap.subtree(s0, pk)
            loc = e['loc']
            final = occupant.get(loc)
            if ex == 'refused':
                if not intact(e):
                    viol('pair-not-intact-after-refusal/dest=%s' % e['dest'], e)
                if r.exit == 0:
                    viol('exit0-after-refusal/dest=%s' % e['dest'], e)
                if not r.err.strip():
                    viol('no-message-after-refusal/dest=%s' % e['dest'], e)
                # what stood there (original occupant or the earlier restored
                # entry) must be unchanged
                if final and final[0] == 'orig':
                    if snap.subtree(s1, loc) != snap.subtree(s0, loc):
                        viol('clobbered-without-overwrite/dest=%s' % e['dest'], e,
                             ddiff=snap.fmt_diff(snap.sig_diff(
                                 snap.subtree(s0, loc), snap.subtree(s1, loc)), 6))
                elif final and final[0] == 'entry':
                    p1 = keys(final[1])[1]
                    if snap.subtree(s1, loc) != snap.subtree(s0, p1):
                        viol('earlier-restored-entry-clobbered/no-overwrite', e)
                explained.add(loc)
            elif ex == 'restored':
                if not gone(e):
                    viol('selected-entry-not-restored/dest=%s' % e['dest'], e)
                elif final and final[0] == 'entry' and final[1] is e:
                    if snap.subtree(s1, loc) != pay0:
                        viol('restored-content-differs/dest=%s' % e['dest'], e)
                    else:
                        obs['restored'] = obs.get('restored', 0) + 1
                        if e['dest'] != 'none':
                            obs['overwritten'] = obs.get('overwritten', 0) + 1
                explained.add(loc)
            elif ex == 'dir-over-nondir':
                if gone(e) and snap.subtree(s1, loc) == pay0:
                    obs['overwritten'] = obs.get('overwritten', 0) + 1
                elif intact(e) and snap.subtree(s1, loc) == snap.subtree(s0, loc) \
                        and r.exit != 0 and r.err.strip():
                    viol('overwrite-does-not-replace-nondir-with-a-directory-entry', e)
                else:
                    viol('overwrite-dir-over-nondir-bad-state/dest=%s' % e['dest'], e)
                explained.add(loc)
            elif ex == 'unspecified-onto-dir':
                # only "no loss": payload signature exists somewhere
                found = intact(e) or snap.subtree(s1, loc) == pay0
                if not found:
                    for q in s1:
                        if q not in s0 and snap.subtree(s1, q) == pay0:
                            found = True
                            explained.add(q)
                            break
                if not found:
                    viol('overwrite-onto-dir-lost-entry/dest=%s' % e['dest'], e)
                explained.add(loc)
            else:           # after a refusal: restored (correctly) or intact
                if intact(e):
                    obs['left_intact'] = obs.get('left_intact', 0) + 1
                elif gone(e) and snap.subtree(s1, loc) == pay0:
                    occupant[loc] = ('entry', e)
                else:
                    viol('entry-after-refusal-neither-restored-nor-intact', e)
                explained.add(loc)
        # entries not selected must be intact
        sel_locs = set(ents[k]['loc'] for k in order)
        for k, e in enumerate(ents):
            if k in order:
                continue
            if not intact(e) or (e['loc'] not in sel_locs and
                                 snap.subtree(s1, e['loc']) != snap.subtree(s0, e['loc'])):
                out['violations'].append({
                    'mechanism': 'unselected-entry-touched',
                    'detail': {'run': r.brief(), 'entry': e, 'reply': reply}})
        # frame: anything else that changed
        d = snap.diff(s0, s1)
        allowed_roots = []
        for e in ents:
            allowed_roots += [e['loc'], '%s/info/%s.trashinfo' % (e['trash'], e['name']),
                              '%s/files/%s' % (e['trash'], e['name'])]
        stray = []
        for k, x, y in d:
            if any(k == a or k.startswith(a + '/') for a in allowed_roots):
                continue
            if any(k == a or k.startswith(a + '/') for a in explained):
                continue
            # parents created for a restored entry
            if x is None and y[0] == 'd' and any(
                    e['loc'].startswith(k + '/') for e in ents):
                continue
            stray.append((k, snap.fmt_entry(x), snap.fmt_entry(y)))
        if stray:
            out['violations'].append({
                'mechanism': 'frame', 'detail': {'run': r.brief(),
                                                 'stray': stray[:8]}})
        out['nontrivial'] = any_occ
        out['sample_obs'] = {'exit': r.exit, 'reply': reply,
                             'stderr': r.errtext()[-200:]}
    out['verdict'] = 'violation' if out['violations'] else 'ok'
    return out
