"""C06 - trash-restore never clobbers an existing destination unless
--overwrite is given."""
import os

from .. import gen, putcheck, run, snap, spec, trashgen, trashio, world

ID = 'C06'

DEST = ['none', 'file', 'dir_empty', 'tree', 'link_file', 'link_dir',
        'link_dangling', 'none']


def config(tier):
    return {
        'level': 'exploration',
        'real_sample': 4 if tier == 'quick' else 30,
        'cases': 3500 if tier == 'quick' else 50000,
        'budget_s': 45 if tier == 'quick' else 560,
        'floors': {'cases': 200, 'occupied_no_overwrite': 100,
                   'occupied_overwrite': 40, 'restored': 100},
        'rule': 'case = 1-3 trashed entries (file/dir/symlink kinds) x '
                'destination pre-occupied by nothing/file/empty dir/tree/'
                'link to file/link to dir/dangling link x --overwrite x reply '
                '(single index, ranges, lists); non-trivial = some selected '
                'destination is occupied',
        'assumptions': ['virtual mount table', 'kernel + tmpfs'],
    }


def gen_case(rng, index, tier):
    vols = rng.choice([[], ['v1']])
    L = gen.make_layout(rng, volumes=vols, xdg='unset',
                        top_states={'v1': 'sticky'}, alt_states={},
                        trash_volumes_env=False)
    where = rng.choice(['home', 'home', 'alt', 'top']) if vols else 'home'
    if where == 'home':
        tdir = L.home_trash()
        volume = 'home' if 'home' in L.mounts else ''
        D = L.home + '/docs'
        home = True
    else:
        volume = 'v1'
        tdir = 'v1/.Trash-%d' % L.uid if where == 'alt' else 'v1/.Trash/%d' % L.uid
        D = 'v1/docs'
        home = False
    L.add({'p': D, 't': 'd', 'm': 0o755})
    L.cwd = D
    n = rng.choice([1, 1, 2, 3])
    entries = []
    for i in range(n):
        tag = 'c%de%d' % (index, i)
        name = rng.choice(['a', 'b c', 'd%d' % i, 'ü', 'x.txt', 'sub/deep/f',
                           'sub/g']) + str(i)
        loc = D + '/' + name
        kind = rng.choice(trashgen.PAYLOAD_KINDS)
        e = trashgen.add_trashed(L, rng, tdir, 'n%d' % i, loc,
                                 '20%02d-01-0%dT10:00:00' % (10 + i, i + 1),
                                 kind, tag, volume_rel=volume, home=home)
        dest = rng.choice(DEST)
        e['dest'] = dest
        dtag = tag + 'dest'
        if dest == 'file':
            L.add(gen.entry_nodes(rng, loc, 'file', dtag))
        elif dest == 'dir_empty':
            L.add(gen.entry_nodes(rng, loc, 'dir_empty', dtag))
        elif dest == 'tree':
            L.add(gen.entry_nodes(rng, loc, 'tree', dtag))
        elif dest == 'link_file':
            L.add(gen.entry_nodes(rng, D + '/tgt-' + dtag, 'file', dtag))
            L.add({'p': loc, 't': 'l', 'to': '@/' + D + '/tgt-' + dtag})
        elif dest == 'link_dir':
            L.add(gen.entry_nodes(rng, D + '/tgtd-' + dtag, 'tree', dtag))
            L.add({'p': loc, 't': 'l', 'to': '@/' + D + '/tgtd-' + dtag})
        elif dest == 'link_dangling':
            L.add({'p': loc, 't': 'l', 'to': 'nothing-' + dtag})
        entries.append(e)
    case = L.desc()
    case['entries'] = entries
    case['overwrite'] = rng.random() < 0.35
    case['sort'] = rng.choice([None, 'date', 'path'])
    sel = rng.choice(['one', 'one', 'all-range', 'all-list', 'rev-list'])
    if n == 1:
        sel = 'one'
    case['sel'] = sel
    case['pick'] = rng.randrange(n)
    return case


def run_case(case):
    out = {'violations': [], 'obs': {}, 'features': []}
    obs = out['obs']
    ents = case['entries']
    with world.World(case) as w:
        D = w.cwd()
        s0 = putcheck.norm_sig(w.snapshot())
        args = []
        if case['overwrite']:
            args.append('--overwrite')
        if case.get('sort'):
            args += ['--sort', case['sort']]
        r0 = run.run(w, 'restore', args, stdin=b'')
        lst = trashio.parse_restore_listing(r0.outtext())
        index_of = {}
        for i, d, p in lst:
            index_of[p] = i
        want_paths = [w.abs(e['loc']) for e in ents]
        if sorted(index_of) != sorted(want_paths):
            out['verdict'] = 'inconclusive'
            out['why'] = 'listing does not show the crafted entries'
            out['detail'] = {'listing': lst, 'want': want_paths,
                             'err': r0.errtext()[-400:]}
            return out
        if case['sel'] == 'one':
            order = [case['pick']]
            reply = str(index_of[want_paths[case['pick']]])
        else:
            idxs = sorted(index_of.values())
            if case['sel'] == 'all-range':
                reply = '%d-%d' % (idxs[0], idxs[-1])
                sel_idx = idxs
            elif case['sel'] == 'all-list':
                reply = ','.join(str(i) for i in idxs)
                sel_idx = idxs
            else:
                reply = ','.join(str(i) for i in reversed(idxs))
                sel_idx = list(reversed(idxs))
            by_index = dict((index_of[p], k) for k, p in enumerate(want_paths))
            order = [by_index[i] for i in sel_idx]
        r = run.run(w, 'restore', args, stdin=(reply + '\n').encode())
        s1 = putcheck.norm_sig(w.snapshot())
        if r.timeout or r.audit_ok() is False:
            out['verdict'] = 'inconclusive'
            out['why'] = 'watchdog' if r.timeout else 'audit mismatch'
            return out
        out['features'] += ['ow:%s' % case['overwrite'], 'sel:' + case['sel']]
        any_occ = False
        explained = set()
        for k in order:
            e = ents[k]
            loc = e['loc']
            occupied = e['dest'] != 'none'
            out['features'].append('dest:%s/%s' % (e['dest'], e['kind'][:4]))
            info_k = '%s/info/%s.trashinfo' % (e['trash'], e['name'])
            pay_k = '%s/files/%s' % (e['trash'], e['name'])
            pay0 = snap.subtree(s0, pay_k)
            dest0 = snap.subtree(s0, loc)
            dest1 = snap.subtree(s1, loc)
            pair_intact = snap.subtree(s1, pay_k) == pay0 and \
                s1.get(info_k) == s0.get(info_k)
            pair_gone = pay_k not in s1 and info_k not in s1
            restored = dest1 == pay0 and pair_gone
            isdir_dest = e['dest'] in ('dir_empty', 'tree', 'link_dir')

            def viol(mech, **kw):
                d = {'run': r.brief(), 'entry': e, 'reply': reply,
                     'dest_before': snap.fmt_entry(s0.get(loc)),
                     'dest_after': snap.fmt_entry(s1.get(loc)),
                     'pair_intact': pair_intact, 'pair_gone': pair_gone}
                d.update(kw)
                out['violations'].append({'mechanism': mech, 'detail': d})

            if occupied and not case['overwrite']:
                any_occ = True
                obs['occupied_no_overwrite'] = obs.get('occupied_no_overwrite', 0) + 1
                if dest1 != dest0:
                    viol('clobbered-without-overwrite/dest=%s' % e['dest'],
                         ddiff=snap.fmt_diff(snap.sig_diff(dest0, dest1), 6))
                if not pair_intact:
                    viol('pair-not-intact-after-refusal/dest=%s' % e['dest'])
                if r.exit == 0:
                    viol('exit0-after-refusal/dest=%s' % e['dest'])
                if not r.err.strip():
                    viol('no-message-after-refusal/dest=%s' % e['dest'])
                explained.update([loc])
            elif occupied and case['overwrite']:
                any_occ = True
                obs['occupied_overwrite'] = obs.get('occupied_overwrite', 0) + 1
                if not isdir_dest:
                    if not restored and not (pair_intact and dest1 == dest0):
                        viol('overwrite-nondir-wrong-result/dest=%s' % e['dest'])
                    elif restored:
                        obs['overwritten'] = obs.get('overwritten', 0) + 1
                else:
                    # unspecified: only "no loss": payload signature exists
                    # in the trash or somewhere under the destination
                    found = pair_intact or restored
                    if not found:
                        for q in s1:
                            if q not in s0 and snap.subtree(s1, q) == pay0:
                                found = True
                                explained.add(q)
                                break
                    if not found:
                        viol('overwrite-onto-dir-lost-entry/dest=%s' % e['dest'])
            else:
                if restored:
                    obs['restored'] = obs.get('restored', 0) + 1
                elif pair_intact and loc not in s1:
                    obs['left_intact'] = obs.get('left_intact', 0) + 1
                else:
                    viol('free-destination-neither-restored-nor-intact')
        # entries not selected must be intact
        for k, e in enumerate(ents):
            if k in order:
                continue
            info_k = '%s/info/%s.trashinfo' % (e['trash'], e['name'])
            pay_k = '%s/files/%s' % (e['trash'], e['name'])
            if snap.subtree(s1, pay_k) != snap.subtree(s0, pay_k) or \
                    s1.get(info_k) != s0.get(info_k) or \
                    snap.subtree(s1, e['loc']) != snap.subtree(s0, e['loc']):
                out['violations'].append({
                    'mechanism': 'unselected-entry-touched',
                    'detail': {'run': r.brief(), 'entry': e, 'reply': reply}})
        # frame: anything else that changed
        d = snap.diff(s0, s1)
        allowed_roots = []
        for e in ents:
            allowed_roots += [e['loc'], '%s/info/%s.trashinfo' % (e['trash'], e['name']),
                              '%s/files/%s' % (e['trash'], e['name'])]
        stray = []
        for k, x, y in d:
            if any(k == a or k.startswith(a + '/') for a in allowed_roots):
                continue
            if any(k == a or k.startswith(a + '/') for a in explained):
                continue
            # parents created for a restored entry
            if x is None and y[0] == 'd' and any(
                    e['loc'].startswith(k + '/') for e in ents):
                continue
            stray.append((k, snap.fmt_entry(x), snap.fmt_entry(y)))
        if stray:
            out['violations'].append({
                'mechanism': 'frame', 'detail': {'run': r.brief(),
                                                 'stray': stray[:8]}})
        out['nontrivial'] = any_occ
        out['sample_obs'] = {'exit': r.exit, 'reply': reply,
                             'stderr': r.errtext()[-200:]}
    out['verdict'] = 'violation' if out['violations'] else 'ok'
    return out
