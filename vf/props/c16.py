"""C16 - trash-put's exit status tells the truth and arguments are handled
independently (differential: list run vs each argument alone)."""
import copy
import os

from .. import gen, putcheck, run, snap, spec, world
from . import c01

ID = 'C16'

ARGCLASSES = ['ok', 'ok', 'ok', 'missing', 'dot', 'badutf8', 'untrashable',
              'duplicate', 'ok-link', 'ok-tree', 'ro-parent', 'empty-string']


def config(tier):
    return {
        'level': 'exploration',
        'cold_sample': 3 if tier == 'quick' else 20,
        'real_sample': 4 if tier == 'quick' else 30,
        'cases': 1800 if tier == 'quick' else 40000,
        'budget_s': 55 if tier == 'quick' else 560,
        'floors': {'cases': 150, 'args_compared_alone': 500,
                   'lists_with_failure': 80, 'lists_all_ok': 20,
                   'failed_args_named': 100},
        'rule': 'case = list of 1-6 arguments in random order mixing trashable '
                'entries, nonexistent paths, dot entries, names that are not '
                'valid UTF-8, entries on a volume without any usable trash '
                'dir, duplicates; options none/-f/-i(with replies)/-v; each '
                'argument is also run alone in an identical fresh world with '
                'the reply it received; non-trivial = >= 2 arguments of '
                'different classes',
        'assumptions': ['virtual mount table'],
    }


def gen_case(rng, index, tier):
    # v2 has no usable trash dir: .Trash is a file, .Trash-$uid is a file
    L = gen.make_layout(rng, volumes=['v1', 'v2'], home_own_volume=False,
                        xdg='unset',
                        top_states={'': rng.choice(['absent', 'sticky']),
                                    'v1': rng.choice(['absent', 'sticky', 'nonsticky']),
                                    'v2': 'file'},
                        alt_states={'v2': 'file'}, trash_volumes_env=False)
    workdirs = c01.setup_workdirs(L, rng, cwd_vol='')
    if rng.random() < 0.35:
        # the paths on which trashing fails belong to a uid/gid without a
        # passwd/group entry (foreign disk, extracted tarball, deleted account)
        L.add({'p': 'v2', 't': 'd', 'm': 0o755, 'o': [54321, 54322]})
        for nd in L.nodes:
            if nd['p'] in ('v2/.Trash', 'v2/.Trash-%d' % L.uid, 'v2/work'):
                nd['o'] = [54321, 54322]
    n = rng.randint(1, 6)
    args = []
    used = set()
    firsts = []
    hostile = False
    for a in range(n):
        cls = rng.choice(ARGCLASSES)
        tag = 'c%da%d' % (index, a)
        if cls in ('ok', 'ok-link', 'ok-tree'):
            kinds = {'ok': ['file', 'empty', 'dir_empty'],
                     'ok-link': ['link_file', 'link_dangling', 'link_dir'],
                     'ok-tree': ['tree']}[cls]
            arg = c01.add_entry(L, rng, workdirs, a, tag, used, kinds=kinds,
                                spellings=['rel', 'abs', 'dotslash'],
                                vol=rng.choice(['', 'v1']),
                                name_kw={'allow_bad_utf8': False})
            firsts.append(arg)
        elif cls == 'untrashable':
            arg = c01.add_entry(L, rng, workdirs, a, tag, used,
                                kinds=['file', 'tree'], spellings=['rel', 'abs'],
                                vol='v2', name_kw={'allow_bad_utf8': False})
        elif cls == 'ro-parent':
            # in a directory the user may not write to: the rename out of it
            # is refused by the kernel (the case runs without CAP_DAC_OVERRIDE)
            v = rng.choice(['', 'v1'])
            rod = workdirs[v] + '/readonly%d' % a
            L.add({'p': rod, 't': 'd', 'm': 0o555})
            arg = c01.add_entry(L, rng, dict(workdirs, **{v: rod}), a, tag, used,
                                kinds=['file', 'tree', 'link_dangling'],
                                spellings=['rel', 'abs'], vol=v, deep=False,
                                name_kw={'allow_bad_utf8': False})
            for nd in L.nodes:
                if nd['p'].startswith(rod + '/sub') and nd.get('t') == 'd' and \
                        nd['p'].count('/') == rod.count('/') + 1:
                    nd['m'] = 0o555
            hostile = True
        elif cls == 'badutf8':
            arg = c01.add_entry(L, rng, workdirs, a, tag, used,
                                kinds=['file'], spellings=['rel', 'abs'],
                                vol=rng.choice(['', 'v1']),
                                name=gen.hostile_name(rng, 'badutf8') + str(a))
        elif cls == 'missing':
            arg = {'spelling': rng.choice(['no-such-%d' % a, '@/v1/nothing-%d' % a,
                                           'sub/none-%d' % a]),
                   'class': 'missing'}
        elif cls == 'empty-string':
            # what a shell passes for "$unset": names nothing
            arg = {'spelling': '', 'class': 'missing'}
            cls = 'missing'
        elif cls == 'dot':
            arg = {'spelling': rng.choice(['.', '..', './', '../', './.']),
                   'class': 'dot'}
        elif cls == 'duplicate' and firsts:
            src = rng.choice(firsts)
            arg = dict(src)
            arg['dup'] = True
        else:
            arg = {'spelling': 'no-such-%d' % a, 'class': 'missing'}
            cls = 'missing'
        arg['acls'] = cls if not arg.get('dup') else 'duplicate'
        if arg['spelling'].startswith('-') and not arg.get('dup') and \
                rng.random() < 0.4:
            # (after the '--' that precedes the file names a name may as well
            # be given as it is: '-v', '-rf', '--' are file names there)
            arg['spelling'] = './' + arg['spelling']
        args.append(arg)
    if firsts and rng.random() < 0.25:
        # one more argument: a symbolic link TO an earlier argument (two
        # entries, one realpath): each is trashed for itself
        src = rng.choice(firsts)
        if src.get('rel') and src.get('kind') in ('file', 'empty', 'tree', 'dir_empty'):
            lname = 'lnk-to-arg-%d' % index
            lrel = (L.cwd + '/' if L.cwd else '') + lname
            L.add({'p': lrel, 't': 'l', 'to': rng.choice(
                ['@/' + src['rel'], os.path.relpath('/' + src['rel'], '/' + L.cwd)])})
            args.append({'spelling': lname, 'class': 'rel', 'kind': 'link_file',
                         'rel': lrel, 'target': src['rel'], 'acls': 'ok-link'})
    rng.shuffle(args)
    # a duplicate must come after its original
    seen = set()
    ordered = []
    late = []
    for a in args:
        if a.get('dup') and a['spelling'] not in seen:
            late.append(a)
        else:
            ordered.append(a)
            seen.add(a['spelling'])
    args = ordered + late
    opt = rng.choice(['none', 'none', '-f', '-i', '-v', '-if'])
    if any(a.get('spelling', '').startswith('lnk-to-arg-') for a in args) and 'i' in opt:
        # (whether the link is asked about depends on whether its target has
        # gone already: which reply goes where is not modelled)
        opt = rng.choice(['none', '-f', '-v'])
    if any(a.get('dup') for a in args) and 'i' in opt:
        # a duplicate under -i is prompted again while the entry still exists:
        # which reply goes where depends on earlier answers - not modelled
        opt = rng.choice(['none', '-f', '-v'])
    opts = {'none': [], '-f': ['-f'], '-i': ['-i'], '-v': ['-v'],
            '-if': ['-f', '-i']}[opt]
    replies = [rng.choice(['y', 'n', 'Y', 'N', '', 'yes', 'maybe'])
               for _ in args]
    c01.add_stale(L, rng, [a for a in args if 'rel' in a], index, p=0.25)
    if rng.random() < 0.06 and L.env.get('HOME', '').startswith('@/'):
        # $HOME given relative to the directory the command is started in
        L.env['HOME'] = os.path.relpath('/' + L.env['HOME'][2:], '/' + L.cwd) \
            if L.cwd else L.env['HOME'][2:]
        relhome = True
    else:
        relhome = False
    case = L.desc()
    if relhome:
        case['relative_home'] = True
    if hostile:
        case['drop_caps'] = True
    case['args'] = args
    case['opts'] = opts
    case['optclass'] = opt
    case['replies'] = replies
    return case


def prompts(w, cwd, arg):
    if arg['spelling'] == '':
        return False              # names nothing: nothing to ask about
    s = world.subst(arg['spelling'], w.R)
    p = s if s.startswith('/') else os.path.join(cwd, s)
    base = os.path.basename(s.rstrip('/'))
    if base in ('.', '..'):
        return False
    return os.path.lexists(p) and os.access(p, os.F_OK)


def outcome_class(o, reported):
    st = o['state']
    if st == 'TRASHED':
        return 'trashed'
    if st in ('UNTOUCHED', 'NOTHING'):
        return 'reported' if reported else 'silent-skip'
    return 'bad:' + st


def one_run(case, w, args, replies, interactive, plan=None):
    cwd = w.cwd()
    des = []
    seen = set()
    for a in args:
        P = c01.designated(w, cwd, a['spelling'])
        if P in seen:
            P = None               # a duplicate names nothing the second time
        elif P is not None:
            seen.add(P)
        des.append(P)
    stdin = ''
    if interactive:
        for a, rp in zip(args, replies):
            if prompts(w, cwd, a):
                stdin += rp + '\n'
    s0 = w.snapshot()
    argv = list(case['opts']) + ['--'] + [world.subst(a['spelling'], w.R) for a in args]
    r = run.run(w, 'put', argv, stdin=stdin.encode(), plan=plan)
    s1 = w.snapshot()
    A = putcheck.analyze(s0, s1, des)
    err = r.errtext()
    classes = []
    for a, o in zip(args, A.outcomes):
        rep = putcheck.reported_failed(
            err, putcheck.stderr_encode(world.subst(a['spelling'], w.R)))
        classes.append(outcome_class(o, rep))
    return r, A, classes, des


def run_case(case):
    out = {'violations': [], 'obs': {}, 'features': []}
    obs = out['obs']
    args = case['args']
    inter = '-i' in case['opts']
    force = '-f' in case['opts'] and not inter   # -i given last overrides -f
    if case['optclass'] == '-if':
        force = False
    with world.World(case) as w:
        r, A, classes, des = one_run(case, w, args, case['replies'], inter)
        R = w.R
    if r.timeout or r.audit_ok() is False:
        out['verdict'] = 'inconclusive'
        out['why'] = 'watchdog' if r.timeout else 'audit mismatch'
        return out
    out['features'] += ['opt:' + case['optclass'], 'n:%d' % len(args)] + \
        ['a:' + a['acls'] for a in args]

    def viol(mech, **kw):
        d = {'run': r.brief(), 'classes': classes,
             'args': [(a['acls'], a['spelling']) for a in args],
             'replies': case['replies']}
        d.update(kw)
        out['violations'].append({'mechanism': mech, 'detail': d})

    # (iv) the process reaches the end of the list
    tb = 'Traceback' in r.errtext()
    if tb:
        last = [l for l in r.errtext().strip().split('\n') if l][-1]
        viol('traceback-aborts-argument-list/%s' % last.split(':')[0][:40])
    # (i)/(ii) exit status and diagnostics
    legit = []
    for a, c, rp in zip(args, classes, case['replies']):
        if c == 'trashed':
            legit.append(True)
        elif c == 'silent-skip':
            legit.append(True)          # judged below against the option
        else:
            legit.append(False)
    any_failed = False
    with world.World(case) as w2:
        cwd = w2.cwd()
        exists = [a['spelling'] != '' and
                  os.path.lexists(os.path.join(cwd, world.subst(a['spelling'], w2.R)))
                  for a in args]
        prm = [prompts(w2, cwd, a) for a in args]
    seen_sp = set()
    for i, (a, c) in enumerate(zip(args, classes)):
        first = a['spelling'] not in seen_sp
        seen_sp.add(a['spelling'])
        declined = inter and prm[i] and first and \
            not case['replies'][i].lower().startswith('y')
        gone_dup = not first and classes[args.index(
            [x for x in args if x['spelling'] == a['spelling']][0])] == 'trashed'
        missing = (not exists[i]) or gone_dup
        skip_ok = declined or (missing and force and
                               os.path.basename(a['spelling'].rstrip('/')) not in ('.', '..'))
        if c == 'trashed':
            continue
        if c == 'silent-skip':
            if not skip_ok and not tb:
                viol('argument-skipped-silently/%s' % a['acls'], index=i)
            continue
        if c == 'reported':
            any_failed = True
            obs['failed_args_named'] = obs.get('failed_args_named', 0) + 1
            if skip_ok and not tb:
                viol('legitimate-skip-reported-as-failure/%s' % a['acls'], index=i)
            continue
        viol('argument-in-bad-state/%s/%s' % (c, a['acls']), index=i)
    if not tb:
        if any_failed:
            obs['lists_with_failure'] = 1
            if r.exit == 0:
                viol('exit0-though-an-argument-failed')
        else:
            obs['lists_all_ok'] = 1
            if r.exit != 0:
                viol('nonzero-exit-though-nothing-failed')
    # (iii) differential: each argument alone in an identical fresh world
    seen_sp = set()
    for i, a in enumerate(args):
        if a['spelling'] in seen_sp:
            continue                # duplicates: judged in the list only
        seen_sp.add(a['spelling'])
        with world.World(case) as wa:
            ra, Aa, ca, _ = one_run(case, wa, [a], [case['replies'][i]], inter)
        obs['args_compared_alone'] = obs.get('args_compared_alone', 0) + 1
        if ca[0] != classes[i]:
            viol('outcome-differs-from-running-alone/%s' % a['acls'], index=i,
                 alone=ca[0], in_list=classes[i], alone_run=ra.brief())
    # (v) nobody listens to the diagnostics (2>&1 | head: the reader has
    # gone): every argument is still processed, the exit status is the same
    if case.get('index', 0) % 4 == 2 and not tb and not inter:
        with world.World(case) as wd:
            rd, Ad, cd, _ = one_run(case, wd, args, case['replies'], inter,
                                    plan={'stderr_fail_at': 1, 'stderr_errno': 32,
                                          'stderr_real_pipe': True})
        obs['runs_with_deaf_stderr'] = 1
        st_l = [o['state'] for o in A.outcomes]
        st_d = [o['state'] for o in Ad.outcomes]
        if st_d != st_l or rd.exit != r.exit:
            viol('deaf-stderr-changes-the-run', states=st_d, listening=st_l,
                 exit_deaf=rd.exit, signal=getattr(rd, 'signal', None),
                 exit_listening=r.exit)
    out['nontrivial'] = len(set(a['acls'] for a in args)) >= 2
    out['sample_obs'] = {'exit': r.exit, 'classes': classes,
                         'args': [a['acls'] for a in args]}
    out['verdict'] = 'violation' if out['violations'] else 'ok'
    return out
