"""python -m vf.realrun [--cold] PROP cases.json out.json

Replays cases of a check on REAL nested tmpfs mounts: must be started inside a
private mount namespace (`unshare -m --propagation private`).  The shim's
virtual-mount parts (ismount, EXDEV/EBUSY emulation) are switched off; the
kernel answers instead.  Prints, per case, the mechanisms of the violations
and the comparable observation counters."""
import json
import sys


def main():
    mode = 'real'
    argv = sys.argv[1:]
    if argv and argv[0] == '--cold':
        mode = 'cold'
        argv = argv[1:]
    pid, inp, outp = argv[:3]
    from . import driver, run, world
    if mode == 'real':
        world.REAL_MOUNTS = True
        run.DEFAULT_PLAN = {'real_mounts': True}
    else:
        run.MODE = 'cold'
    run.prepare()
    prop = driver.load_prop(pid)
    if hasattr(prop, 'setup'):
        prop.setup('quick')
    cases = json.load(open(inp))
    out = []
    for n, item in enumerate(cases):
        if mode == 'cold':
            # every other case: the interpreter in optimised mode (-O): what
            # the program does must not hang on an assert statement
            run.COLD_LOCALE = {'PYTHONOPTIMIZE': '1'} if n % 2 else None
        try:
            res = prop.run_case(item['case'])
            out.append({'i': item['i'], 'verdict': res.get('verdict'),
                        'mechanisms': sorted(v.get('mechanism') for v in
                                             res.get('violations') or []),
                        'obs': res.get('obs') or {},
                        'why': res.get('why')})
        except Exception as e:
            out.append({'i': item['i'], 'verdict': 'error', 'why': repr(e),
                        'mechanisms': [], 'obs': {}})
    json.dump(out, open(outp, 'w'))


if __name__ == '__main__':
    main()
