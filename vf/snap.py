"""E4 - snapshots and signatures of a sandbox tree.

Independent of trashcli.  Paths are str (fs-decoded with surrogateescape).
An entry is a tuple  (type, mode, uid, gid, size, data, mtime_ns)  where
type is 'f' (regular), 'd' (directory), 'l' (symlink), 'o' (other), data is
the sha256 hex digest for regular files, the link target for symlinks and
None otherwise; size is None for directories.
"""
import hashlib
import os
import stat as _stat

_lstat = os.lstat
_scandir = os.scandir
_readlink = os.readlink
_open = os.open
_read = os.read
_close = os.close


def _digest(path):
    h = hashlib.sha256()
    try:
        fd = _open(path, os.O_RDONLY | os.O_NOFOLLOW)
    except OSError as e:
        return 'unreadable:%s' % e.errno
    try:
        while True:
            b = _read(fd, 1 << 16)
            if not b:
                break
            h.update(b)
    finally:
        _close(fd)
    return h.hexdigest()[:24]


def entry_of(path, st=None):
    if st is None:
        st = _lstat(path)
    m = st.st_mode
    if _stat.S_ISREG(m):
        return ('f', _stat.S_IMODE(m), st.st_uid, st.st_gid, st.st_size,
                _digest(path), st.st_mtime_ns)
    if _stat.S_ISDIR(m):
        return ('d', _stat.S_IMODE(m), st.st_uid, st.st_gid, None, None,
                st.st_mtime_ns)
    if _stat.S_ISLNK(m):
        return ('l', _stat.S_IMODE(m), st.st_uid, st.st_gid, st.st_size,
                _readlink(path), st.st_mtime_ns)
    # fifo / socket / device node: the type and device number are its content
    return ('o', _stat.S_IMODE(m), st.st_uid, st.st_gid, _stat.S_IFMT(m),
            st.st_rdev, st.st_mtime_ns)


def snapshot(root):
    """{path relative to root ('' = root itself): entry}; never follows links."""
    out = {}
    try:
        st = _lstat(root)
    except OSError:
        return out
    out[''] = entry_of(root, st)
    if not _stat.S_ISDIR(st.st_mode):
        return out
    stack = [('', root)]
    while stack:
        rel, p = stack.pop()
        try:
            it = list(_scandir(p))
        except OSError:
            continue
        for de in it:
            r = de.name if rel == '' else rel + '/' + de.name
            full = p + '/' + de.name
            try:
                st = de.stat(follow_symlinks=False)
            except OSError:
                continue
            e = entry_of(full, st)
            out[r] = e
            if e[0] == 'd':
                stack.append((r, full))
    return out


def subtree(snap, rel):
    """signature of the subtree rooted at rel inside a snapshot: keys are
    relative to the subtree root."""
    out = {}
    if rel in snap:
        out[''] = snap[rel]
    pre = rel + '/' if rel else ''
    for k, v in snap.items():
        if k != rel and k.startswith(pre) and (rel != '' or k != ''):
            out[k[len(pre):]] = v
    return out


def signature(path):
    return snapshot(path)


def sig_equal(a, b, ignore_root_mtime=False, ignore=('uid', 'gid')):
    """Equality of two signatures.  uid/gid are compared too unless ignored
    (everything runs as one uid so they are equal anyway)."""
    return not sig_diff(a, b, ignore_root_mtime)


def sig_diff(a, b, ignore_root_mtime=False):
    d = []
    for k in sorted(set(a) | set(b)):
        x, y = a.get(k), b.get(k)
        if x == y:
            continue
        if x is None or y is None:
            d.append((k, x, y))
            continue
        if k == '' and ignore_root_mtime and x[:6] == y[:6]:
            continue
        d.append((k, x, y))
    return d


def diff(before, after):
    """list of (path, before_entry|None, after_entry|None) for every path whose
    entry differs.  A directory whose own child set changed is allowed a
    different mtime (that is what rename/unlink/mkdir do) and is not
    reported for mtime alone."""
    changed_children = set()
    keys = set(before) | set(after)
    for k in keys:
        x, y = before.get(k), after.get(k)
        if x is None or y is None or x[0] != y[0] or \
                (x[0] != 'd' and x != y):
            # created, removed or replaced (rename over an existing name,
            # rewrite): the parent directory's mtime legitimately moves
            changed_children.add(os.path.dirname(k) if '/' in k else '')
    out = []
    for k in sorted(keys):
        x, y = before.get(k), after.get(k)
        if x == y:
            continue
        if x is not None and y is not None and x[0] == 'd' and y[0] == 'd' \
                and x[:6] == y[:6] and k in changed_children:
            continue
        out.append((k, x, y))
    return out


def fmt_entry(e):
    if e is None:
        return 'absent'
    t, mode, uid, gid, size, data, mt = e
    return '%s %04o %s %s mt=%s' % (t, mode, size, data, mt)


def fmt_diff(d, limit=12):
    lines = []
    for k, x, y in d[:limit]:
        lines.append('%r: %s -> %s' % (k, fmt_entry(x), fmt_entry(y)))
    if len(d) > limit:
        lines.append('... %d more' % (len(d) - limit))
    return lines
