"""Runtime contracts on the real (pure) functions of trash-cli, bound with
icontract (fallback: a plain wrapper) at every site holding a reference.
Conditions record and return True - a violated contract never changes the
behaviour it observes.  Evaluation counts are part of the evidence; zero
evaluations of a deciding contract is inconclusive."""
import datetime
import functools
import inspect
import os
import sys

from . import spec

try:
    if '/verif/.deps' not in sys.path:
        sys.path.append(os.path.join(os.path.dirname(os.path.dirname(
            os.path.abspath(__file__))), '.deps'))
    import icontract
    HAVE_ICONTRACT = True
except Exception:                                   # pragma: no cover
    icontract = None
    HAVE_ICONTRACT = False


class ContractBroken(Exception):
    pass


class Sink(object):
    def __init__(self):
        self.counts = {}
        self.fails = []
        self.shim = None

    def count(self, name):
        self.counts[name] = self.counts.get(name, 0) + 1

    def fail(self, name, detail):
        if len(self.fails) < 50:
            self.fails.append({'contract': name, 'detail': detail})
        if self.shim is not None:
            self.shim.log_json('C', {'contract': name, 'detail': detail})

    def reset(self):
        self.counts = {}
        self.fails = []


SINK = Sink()


def _guarded(fn):
    """run a condition with the shim's re-entrancy guard on, so that the
    oracle's own file-system calls are neither traced nor faulted"""
    @functools.wraps(fn)
    def w(*a, **kw):
        sh = SINK.shim
        prev = None
        if sh is not None:
            prev = sh.inside
            sh.inside = True
        try:
            return fn(*a, **kw)
        except Exception as e:          # a crashing oracle is reported, not raised
            SINK.fail(fn.__name__, 'oracle raised %r' % (e,))
            return True
        finally:
            if sh is not None:
                sh.inside = prev
    return w


def r(x):
    return repr(x)[:300]


# ------------------------------------------------------------- conditions
@_guarded
def format_trashinfo_post(original_location, deletion_date, result):
    SINK.count('format_trashinfo')
    m = spec.INFO_GRAMMAR.match(result) if isinstance(result, bytes) else None
    if m is None:
        SINK.fail('format_trashinfo', 'grammar: %s' % r(result))
        return True
    val = m.group(1).decode('ascii', 'replace')
    if not spec.escaped_ok(val):
        SINK.fail('format_trashinfo', 'unescaped char in %s' % r(val))
    want = original_location.encode('utf-8', 'surrogateescape')
    if spec.pct_decode(val) != want:
        SINK.fail('format_trashinfo', 'decode(%s) != %s' % (r(val), r(want)))
    dt = m.group(2).decode('ascii')
    wd = '%04d-%02d-%02dT%02d:%02d:%02d' % (
        deletion_date.year, deletion_date.month, deletion_date.day,
        deletion_date.hour, deletion_date.minute, deletion_date.second)
    if dt != wd:
        SINK.fail('format_trashinfo', 'date %s != %s' % (dt, wd))
    # the readers of the repository must read the same thing back
    try:
        from trashcli.parse_trashinfo.parse_path import parse_path
        from trashcli.parse_trashinfo.parse_deletion_date import \
            parse_deletion_date
        text = result.decode('utf-8')
        back = _orig(parse_path)(text)
        if back != original_location:
            SINK.fail('format_trashinfo', 'parse_path gives %s for %s' % (
                r(back), r(original_location)))
        bd = _orig(parse_deletion_date)(text)
        if bd != deletion_date.replace(microsecond=0):
            SINK.fail('format_trashinfo', 'parse_deletion_date gives %s for %s'
                      % (bd, deletion_date))
    except Exception as e:
        SINK.fail('format_trashinfo', 'readers raised %r on %s' % (e, r(result)))
    return True


@_guarded
def for_file_post(self, path, path_maker_type, volume_top_dir, result):
    SINK.count('for_file')
    from trashcli.put.core.path_maker_type import PathMakerType
    # no lexical normalisation: 'link/../x' must be resolved by the kernel
    ent = spec.real_entry(path if path.startswith('/') else
                          os.path.join(os.getcwd(), path))
    if path_maker_type == PathMakerType.AbsolutePaths:
        if not result.startswith('/'):
            SINK.fail('for_file', 'not absolute: %s' % r(result))
        elif result != ent:
            SINK.fail('for_file', '%s != real entry %s (arg %s)' % (
                r(result), r(ent), r(path)))
    else:
        vol = volume_top_dir
        # (the volume's top directory itself lives in its PARENT directory,
        # which is outside the volume: no relative form exists for it)
        if ent.startswith(vol.rstrip('/') + '/'):
            if result.startswith('/'):
                SINK.fail('for_file', 'absolute Path inside the volume: %s' % r(result))
            elif '..' in result.split('/'):
                SINK.fail('for_file', "'..' in %s" % r(result))
            elif os.path.join(vol, result) != ent:
                SINK.fail('for_file', 'join(%s,%s) != %s' % (r(vol), r(result), r(ent)))
    return True


@_guarded
def parse_indexes_post(user_input, len_trashed_files, result):
    SINK.count('parse_indexes')
    got = list(result.all_indexes())
    if spec.STRICT_REPLY.match(user_input):
        want = spec.parse_reply(user_input, len_trashed_files)
        if want is None:
            SINK.fail('parse_indexes', 'accepted out-of-range %s (n=%d) -> %s'
                      % (r(user_input), len_trashed_files, got[:10]))
        elif got != want:
            SINK.fail('parse_indexes', '%s (n=%d): got %s want %s' % (
                r(user_input), len_trashed_files, got[:10], want[:10]))
    else:
        # lenient class (spaces, signs, '_', non-ASCII digits): the reading
        # must still be in range
        if any((not isinstance(i, int)) or i < 0 or i >= len_trashed_files
               for i in got):
            SINK.fail('parse_indexes', 'out of range for %s: %s' % (
                r(user_input), got[:10]))
    return True


@_guarded
def older_than_post(days_ago, now_value, deletion_date, result):
    SINK.count('older_than')
    try:
        want = deletion_date < now_value - datetime.timedelta(days=days_ago)
    except OverflowError:
        return True
    if bool(result) != want:
        SINK.fail('older_than', '(%s, %s, %s) -> %s' % (
            days_ago, now_value, deletion_date, result))
    return True


@_guarded
def filter_matches_post(self, original_location, result):
    SINK.count('Filter.matches')
    pat = self.pattern
    if not spec.glob_is_portable(pat):
        return True
    subject = original_location if pat.startswith('/') else \
        original_location.rsplit('/', 1)[-1]
    want = spec.glob_match(subject, pat)
    if bool(result) != want:
        SINK.fail('Filter.matches', 'pattern %s on %s -> %s' % (
            r(pat), r(original_location), result))
    return True


@_guarded
def scope_post(self, path, result):
    SINK.count('original_location_matches_path')
    want = spec.in_scope(self.original_location, path)
    if bool(result) != want:
        SINK.fail('original_location_matches_path', '%s in %s -> %s' % (
            r(self.original_location), r(path), result))
    return True


@_guarded
def parse_path_post(contents, result):
    SINK.count('parse_path')
    pi = spec.parse_info(contents.encode('utf-8', 'surrogateescape'))
    if pi['path'] is None:
        SINK.fail('parse_path', 'returned %s without a Path line' % r(result))
        return True
    want = pi['path'].decode('utf-8', 'replace')
    if result != want:
        SINK.fail('parse_path', '%s -> %s want %s' % (
            r(pi['path_raw']), r(result), r(want)))
    return True


@_guarded
def parse_deletion_date_post(contents, result):
    SINK.count('parse_deletion_date')
    pi = spec.parse_info(contents.encode('utf-8', 'surrogateescape'))
    if pi['date_raw'] is None:
        if result is not None:
            SINK.fail('parse_deletion_date', 'date %s from nothing' % result)
        return True
    strict = pi['date']
    if strict is not None and result != strict:
        SINK.fail('parse_deletion_date', '%s -> %s' % (r(pi['date_raw']), result))
    if strict is None and result is not None:
        # lenient strptime readings (single digits, surrounding blanks) are
        # tolerated when they denote the same fields; anything else is not
        try:
            lenient = datetime.datetime.strptime(
                pi['date_raw'], '%Y-%m-%dT%H:%M:%S')
        except ValueError:
            lenient = None
        if lenient != result:
            SINK.fail('parse_deletion_date', 'first line %s unparseable but '
                      'got %s' % (r(pi['date_raw']), result))
    return True


# ------------------------------------------------------------------ binder
_ORIG = {}


def _orig(f):
    return getattr(f, '__vf_orig__', f)


def _wrap(func, cond):
    if HAVE_ICONTRACT:
        wrapped = icontract.ensure(cond, error=ContractBroken)(func)
    else:
        sig = inspect.signature(func)
        cparams = list(inspect.signature(cond).parameters)

        @functools.wraps(func)
        def wrapped(*a, **kw):
            res = func(*a, **kw)
            ba = sig.bind(*a, **kw)
            ba.apply_defaults()
            args = dict(ba.arguments)
            args['result'] = res
            cond(**{k: args[k] for k in cparams if k in args})
            return res
    try:
        wrapped.__vf_orig__ = func
    except Exception:
        pass
    return wrapped


def _rebind_everywhere(orig, new):
    n = 0
    for mname, mod in list(sys.modules.items()):
        if not mname.startswith('trashcli') or mod is None:
            continue
        for k, v in list(vars(mod).items()):
            if v is orig:
                setattr(mod, k, new)
                n += 1
    return n


TABLE = {
    'format_trashinfo': ('trashcli.put.format_trash_info', 'format_trashinfo',
                         None, format_trashinfo_post),
    'for_file': ('trashcli.put.original_location', 'OriginalLocation',
                 'for_file', for_file_post),
    'parse_indexes': ('trashcli.restore.restore_asking_the_user',
                      'parse_indexes', None, parse_indexes_post),
    'older_than': ('trashcli.empty.older_than', 'older_than', None,
                   older_than_post),
    'Filter.matches': ('trashcli.rm.filter', 'Filter', 'matches',
                       filter_matches_post),
    'scope': ('trashcli.restore.trashed_file', 'TrashedFile',
              'original_location_matches_path', scope_post),
    'parse_path': ('trashcli.parse_trashinfo.parse_path', 'parse_path', None,
                   parse_path_post),
    'parse_deletion_date': ('trashcli.parse_trashinfo.parse_deletion_date',
                            'parse_deletion_date', None,
                            parse_deletion_date_post),
}

_bound = {}


def bind(names, shim=None):
    """bind the named contracts (idempotent).  returns {name: sites}"""
    import importlib
    SINK.shim = shim
    out = {}
    for name in names:
        if name in _bound:
            out[name] = _bound[name]
            continue
        modname, attr, meth, cond = TABLE[name]
        mod = importlib.import_module(modname)
        if meth is None:
            orig = getattr(mod, attr)
            new = _wrap(orig, cond)
            sites = _rebind_everywhere(orig, new)
        else:
            cls = getattr(mod, attr)
            orig = cls.__dict__[meth]
            new = _wrap(orig, cond)
            setattr(cls, meth, new)
            sites = 1
        _bound[name] = sites
        out[name] = sites
    if shim is not None:
        old_finish = shim.finish

        def finish():
            shim.log_json('K', {'counts': SINK.counts})
            old_finish()
        shim.finish = finish
    return out
