"""E1 - world builder: one sandbox tree per case, from a JSON descriptor.

desc = {
  'mounts': ['', 'v1', 'v1/nested'],     # relative to R; '' (R itself) always
  'uid': 123,
  'env': {'HOME': '@/home/u', ...},      # leading '@' = the sandbox root R
  'cwd': 'home/u',
  'nodes': [ {'p': 'home/u/a', 't': 'f', 'c': 'text', 'm': 0o644, 'mt': ns},
             {'p': 'x', 't': 'd', 'm': 0o755}, {'p': 'l', 't': 'l', 'to': '@/x'} ]
}
All names are str, fs-decoded with surrogateescape (so any byte is reachable
and the descriptor survives JSON).
"""
import os
import stat as _stat
import shutil
import tempfile

from . import snap

BASE_MTIME = 1500000000
SCRATCH_PARENT = os.environ.get('VERIF_SCRATCH') or (
    '/dev/shm' if os.path.isdir('/dev/shm') and os.access('/dev/shm', os.W_OK)
    else tempfile.gettempdir())


REAL_MOUNTS = False      # set by vf.realrun inside a private mount namespace


def _mount_tmpfs(path):
    import ctypes
    libc = ctypes.CDLL(None, use_errno=True)
    r = libc.mount(b'tmpfs', path.encode(), b'tmpfs', 0, b'size=64m,mode=0755')
    if r != 0:
        e = ctypes.get_errno()
        raise OSError(e, 'mount tmpfs on %s: %s' % (path, os.strerror(e)))


def _umount(path):
    import ctypes
    libc = ctypes.CDLL(None, use_errno=True)
    libc.umount2(path.encode(), 2)       # MNT_DETACH


def subst(s, R):
    """'@' alone or a leading '@/' stands for the sandbox root (a file NAMED
    '@...' is not a placeholder: generators spell it './@...')"""
    if isinstance(s, str) and (s == '@' or s.startswith('@/')):
        return R + s[1:]
    return s


def b(s):
    return s.encode('utf-8', 'surrogateescape')


class World(object):
    def __init__(self, desc):
        self.desc = desc
        self.scratch = tempfile.mkdtemp(prefix='vf', dir=SCRATCH_PARENT)
        self.R = os.path.join(self.scratch, 'R')
        os.mkdir(self.R, 0o755)
        self.uid = desc.get('uid', 0)
        self.mounts = [self.abs(m) for m in (desc.get('mounts') or [''])]
        if self.R not in self.mounts:
            self.mounts.insert(0, self.R)
        try:
            self._build()
        except BaseException:
            self.destroy()
            raise

    # ------------------------------------------------------------------
    def abs(self, rel):
        if rel in ('', None):
            return self.R
        if rel == '@' or rel.startswith('@/'):
            return self.R + rel[1:]
        if rel.startswith('/'):
            return rel
        return self.R + '/' + rel

    def rel(self, path):
        if path == self.R:
            return ''
        if path.startswith(self.R + '/'):
            return path[len(self.R) + 1:]
        return None

    def env(self):
        e = {}
        for k, v in (self.desc.get('env') or {}).items():
            if k == 'TRASH_VOLUMES':
                e[k] = ':'.join(subst(x, self.R) for x in v.split(':'))
            else:
                e[k] = subst(v, self.R)
        return e

    def cwd(self):
        return self.abs(self.desc.get('cwd', ''))

    def _build(self):
        R = self.R
        self.real = REAL_MOUNTS
        for m in sorted(self.mounts, key=len):
            os.makedirs(m, exist_ok=True)
            if self.real:
                _mount_tmpfs(m)
        late = []
        n = 0
        for nd in self.desc.get('nodes') or []:
            n += 1
            p = self.abs(nd['p'])
            t = nd.get('t', 'f')
            parent = os.path.dirname(p)
            if not os.path.isdir(parent):
                os.makedirs(parent)
            if t == 'd':
                if not os.path.isdir(p):
                    os.mkdir(p)
                os.chmod(p, nd.get('m', 0o755))
            elif t == 'f':
                c = nd.get('c', '')
                if nd.get('sub') and isinstance(c, str):
                    c = c.replace('@@R@@', R)
                data = b(c) if isinstance(c, str) else bytes(c)
                if nd.get('hex'):
                    data = bytes.fromhex(nd['hex'])
                fd = os.open(p, os.O_WRONLY | os.O_CREAT | os.O_TRUNC, 0o600)
                try:
                    os.write(fd, data)
                finally:
                    os.close(fd)
                os.chmod(p, nd.get('m', 0o644))
            elif t == 'l':
                os.symlink(subst(nd['to'], R), p)
            elif t == 'h':
                # another name (hard link) of an earlier node
                os.link(self.abs(subst(nd['to'], R)) if not nd['to'].startswith('/')
                        else nd['to'], p)
            elif t == 'p':
                os.mkfifo(p, nd.get('m', 0o644))
            elif t == 's':
                os.mknod(p, _stat.S_IFSOCK | nd.get('m', 0o644))
            elif t == 'c':
                # a character device node (the null device's numbers)
                os.mknod(p, _stat.S_IFCHR | nd.get('m', 0o600), os.makedev(1, 3))
            else:
                raise ValueError('bad node type %r' % t)
            if nd.get('o'):
                os.lchown(p, nd['o'][0], nd['o'][1])
            mt = nd.get('mt')
            if mt is None:
                mt = (BASE_MTIME + 1000 * n) * 10 ** 9 + 123456789
            late.append((p, mt))
        for p, mt in reversed(late):
            os.utime(p, ns=(mt, mt), follow_symlinks=False)

    def snapshot(self):
        return snap.snapshot(self.R)

    def destroy(self):
        if getattr(self, 'real', False):
            for m in sorted(self.mounts, key=len, reverse=True):
                _umount(m)
        # make everything removable first (modes like 0o000 on dirs)
        try:
            shutil.rmtree(self.scratch)
        except RecursionError:
            # trees deeper than the interpreter's recursion limit (C11)
            import subprocess
            subprocess.run(['rm', '-rf', '--', self.scratch])
        except OSError:
            for d, dirs, files in os.walk(self.scratch):
                try:
                    os.chmod(d, 0o700)
                except OSError:
                    pass
            shutil.rmtree(self.scratch, ignore_errors=True)

    def __enter__(self):
        return self

    def __exit__(self, *a):
        self.destroy()


# ---------------------------------------------------------------- helpers
def trashinfo_text(path_value, date):
    """a well-formed .trashinfo; path_value already escaped"""
    s = '[Trash Info]\nPath=%s\n' % path_value
    if date is not None:
        s += 'DeletionDate=%s\n' % date
    return s


def trash_nodes(trash_rel, name, info_text, payload):
    """nodes for one trash entry.  payload: None (no payload) or a list of
    nodes whose 'p' is relative to the payload root ('' = the payload itself)."""
    out = []
    if info_text is not None:
        out.append({'p': '%s/info/%s.trashinfo' % (trash_rel, name),
                    't': 'f', 'c': info_text, 'm': 0o600})
    if payload is not None:
        for nd in payload:
            nd = dict(nd)
            sub = nd['p']
            nd['p'] = '%s/files/%s' % (trash_rel, name) + \
                ('/' + sub if sub else '')
            out.append(nd)
    return out


def ensure_trash_dirs(trash_rel):
    return [{'p': trash_rel, 't': 'd', 'm': 0o700},
            {'p': trash_rel + '/files', 't': 'd', 'm': 0o700},
            {'p': trash_rel + '/info', 't': 'd', 'm': 0o700}]
