"""Seeded generators shared by the checks: hostile names, volume layouts,
trash-directory states, user entries.  Pure functions of the rng."""
import os

# --------------------------------------------------------------- names
_ASCII = 'abcdefghijklmnopqrstuvwxyzABCDEFGHIJKLMNOPQRSTUVWXYZ0123456789_-.'
_ODD = [' ', '\n', '\r', '\t', '%', '=', '[', ']', '+', '#', '?', '*', '&',
        ';', '"', "'", '\\', '$', '`', '!', '~', ':', '@', '^', '(', ')', '{',
        '}', '|', '<', '>', ',', '\x01', '\x7f', '%25', '%2F', '%00', '%41',
        '%zz', '%']
_UTF8 = ['é', 'ü', '中', '文', '\U0001f600', '́',
         '​', '‮', '﻿', ' ', 'Ω']

NAME_CLASSES = ['plain', 'space', 'newline', 'percent', 'odd', 'dash',
                'dot', 'glob', 'utf8', 'badutf8', 'long', 'trashinfo',
                'allbytes', 'trashy', 'terminal', 'normal-forms', 'format']


def _rand_bytes_name(rng, n, valid_utf8=None):
    """n random units: raw bytes 1-255 (usually not valid UTF-8), or - when
    valid_utf8 - code points drawn from all of ASCII 1-127, Latin-1, BMP and
    astral ranges (every byte value 0x80-0xF4 still occurs in the encoding)"""
    if valid_utf8 is None:
        valid_utf8 = rng.random() < 0.7
    if valid_utf8:
        out = []
        for _ in range(n):
            r = rng.random()
            if r < 0.55:
                c = rng.randrange(1, 128)
            elif r < 0.75:
                c = rng.randrange(0x80, 0x800)
            elif r < 0.93:
                c = rng.randrange(0x800, 0x10000)
                if 0xd800 <= c < 0xe000:
                    c = 0x4e2d
            else:
                c = rng.randrange(0x10000, 0x110000)
            if c == 0x2f:
                c = 0x5f
            out.append(chr(c))
        return ''.join(out)
    out = []
    for _ in range(n):
        c = rng.randrange(1, 256)
        if c == 0x2f:
            c = 0x5f
        out.append(c)
    return bytes(out).decode('utf-8', 'surrogateescape')


def hostile_name(rng, klass=None, maxbytes=48, allow_bad_utf8=True):
    """a file name (str, fs-decoded).  never '', '.', '..', no '/' or NUL."""
    classes = list(NAME_CLASSES)
    if not allow_bad_utf8:
        classes = [c for c in classes if c not in ('badutf8', 'allbytes')]
    if klass is None:
        klass = rng.choice(classes + ['plain'] * 3)
    base = ''.join(rng.choice(_ASCII[:52]) for _ in range(rng.randint(1, 8)))
    if klass == 'plain':
        n = base + rng.choice(['', '.txt', '.o', '.tar.gz', '_1', ' (copy)'])
    elif klass == 'space':
        n = rng.choice([' ', '  ', ' ' + base, base + ' ', base + ' ' + base])
    elif klass == 'newline':
        n = rng.choice([base + '\n' + base, '\n' + base, base + '\n',
                        base + '\r\n' + base, base + '\r', '\n'])
    elif klass == 'percent':
        n = rng.choice(['%', '%%', base + '%41', '%2F' + base, '100%',
                        base + '%', '%0A', '%zz' + base, '+' + base,
                        base + '+' + base, 'a%20b'])
    elif klass == 'odd':
        n = ''.join(rng.choice([rng.choice(_ODD), rng.choice(_ASCII)])
                    for _ in range(rng.randint(1, 10)))
    elif klass == 'dash':
        n = rng.choice(['-', '--', '-f', '-rf', '--help', '-v', '--',
                        '-' + base, '--trash-dir=' + base])
    elif klass == 'dot':
        n = rng.choice(['.' + base, '...', '..' + base, '.' + base + '.',
                        base + '.', '. ', '.. ', ' .'])
    elif klass == 'glob':
        n = ''.join(rng.choice(['*', '?', '[', ']', '!', 'a', 'b', '-', 'c'])
                    for _ in range(rng.randint(1, 8)))
    elif klass == 'utf8':
        n = ''.join(rng.choice(_UTF8 + list(_ASCII[:26]))
                    for _ in range(rng.randint(1, 10)))
    elif klass == 'badutf8':
        raw = rng.choice([b'\xff', b'\xc3', b'a\xe9b', b'\x80abc', b'\xf0\x9f',
                          b'caf\xe9', b'\xfe\xff', b'\xed\xa0\x80'])
        n = raw.decode('utf-8', 'surrogateescape')
        if rng.random() < 0.5:
            n = base + n
    elif klass == 'long':
        ln = rng.choice([200, 240, 245, 246, 250, 254, 255])
        unit = rng.choice(['a', 'long', 'é', 'x%'])
        n = (unit * 300)
        while len(n.encode('utf-8', 'surrogateescape')) > ln:
            n = n[:-1]
    elif klass == 'trashinfo':
        n = rng.choice([base + '.trashinfo', '.trashinfo', 'x.trashinfo_1',
                        base + '.trashinfo.trashinfo'])
    elif klass == 'allbytes':
        n = _rand_bytes_name(rng, rng.randint(1, 12))
    elif klass == 'trashy':
        # names the trash itself uses
        # ('files' and 'info' themselves are left out: the oracles tell the
        # two directories of a trash dir by those names)
        n = rng.choice(['Files', 'info ', '.Trash', '.Trash-1000', '.Trash-0',
                        'Trash', 'directorysizes', 'expunged', 'info.trashinfo',
                        '.local', 'files.d'])
    elif klass == 'terminal':
        # what a terminal or a line-oriented consumer would choke on
        n = rng.choice(['\x1b[31mred\x1b[0m', 'bell\x07', 'back\x08\x08', 'a\x1b]0;title\x07b',
                        'cr\rover', 'tab\tsep', 'nl\n   7 2001-01-01 00:00:00 /etc/passwd',
                        '\x7f', 'a\x00b'.replace('\x00', '\x01')]) + base[:2]
    elif klass == 'format':
        # metacharacters of the formatting mini-languages (str.format, %,
        # string.Template, the shell): a name is data, never a template
        n = rng.choice(['{}', '{0}', '{backup}', 'a{1}.c', '%s', '%d', '%(name)s',
                        '{', '}', '{{}}', '{0!r:>{1}}', '$HOME', '${x}', '`id`',
                        '$(id)', '%s%s%s%s', '{6E3C-1A}.dat']) + \
            rng.choice(['', base[:3]])
    elif klass == 'normal-forms':
        # the same text in two Unicode normal forms: different names
        n = rng.choice(['caf\u00e9', 'cafe\u0301', '\u00c5ngstr\u00f6m',
                        'A\u030angstro\u0308m', '\uac00', '\u1100\u1161'])
    else:
        n = base
    if klass != 'long':
        while len(n.encode('utf-8', 'surrogateescape')) > maxbytes:
            n = n[:-1]
    n = n.replace('/', '_').replace('\x00', '_')
    if n in ('', '.', '..'):
        n = n + 'x'
    return n


def is_valid_utf8(s):
    try:
        s.encode('utf-8')
        return True
    except UnicodeEncodeError:
        return False


# -------------------------------------------------------------- layout
TRASH_STATES = ['absent', 'sticky', 'nonsticky', 'link_sticky',
                'link_nonsticky', 'file']
ALT_STATES = ['absent', 'dir', 'file', 'link_other']


class Layout(object):
    """a world descriptor under construction"""

    def __init__(self):
        self.mounts = ['']
        self.uid = 0
        self.env = {}
        self.nodes = []
        self.cwd = ''
        self.home = None            # rel path of $HOME or None
        self.xdg = None             # 'unset' | 'set' | 'other' | 'empty'
        self.top_state = {}         # volume rel -> state of .Trash
        self.alt_state = {}         # volume rel -> state of .Trash-$uid
        self.extra = {}

    def desc(self):
        d = {'mounts': self.mounts, 'uid': self.uid, 'env': self.env,
             'cwd': self.cwd, 'nodes': self.nodes}
        d.update(self.extra)         # run-wide plan defaults (listdir_seed, ...)
        return d

    def add(self, *nodes):
        for n in nodes:
            if isinstance(n, list):
                self.nodes.extend(n)
            else:
                self.nodes.append(n)

    def vol_path(self, vol, sub):
        return (vol + '/' + sub) if vol else sub

    def home_trash(self):
        """rel path of the home trash the SPEC prescribes, or None"""
        x = self.env.get('XDG_DATA_HOME')
        if x:
            return x[2:] + '/Trash' if x.startswith('@/') else None
        h = self.env.get('HOME')
        if h and h.startswith('@/'):
            return h[2:] + '/.local/share/Trash'
        return None


def make_layout(rng, volumes=None, home_own_volume=None, uid=None, xdg=None,
                top_states=None, alt_states=None, populate_dirs=True,
                trash_volumes_env=None, home_set=True):
    L = Layout()
    if volumes is None:
        volumes = rng.choice([[], ['v1'], ['v1'], ['v1', 'v2'],
                              ['v1', 'v1/nested'], ['v1', 'v1/nested', 'v2']])
        if rng.random() < 0.12:
            # a mount point whose own name is hostile (format characters,
            # blanks, non-ASCII, something that looks like an option)
            volumes = list(volumes) + [rng.choice(
                ['usb 100%', '50%off', 'a%%b', 'd%s', 'media/my disk',
                 'm\u00e9dia', '-v', 'vol.trashinfo', 'x=y'])]
    if home_own_volume is None:
        home_own_volume = rng.random() < 0.25
    L.mounts = [''] + list(volumes) + (['home'] if home_own_volume else [])
    L.uid = rng.choice([0, 1, 123, 1000, 65534, 2 ** 31 - 1]) \
        if uid is None else uid
    L.home = 'home/' + rng.choice(['u'] * 9 + ['sysinfo'])
    if home_set:
        L.env['HOME'] = '@/' + L.home
    L.add({'p': L.home, 't': 'd', 'm': 0o755})
    if xdg is None:
        r = rng.random()
        xdg = 'unset' if r < 0.7 else 'set' if r < 0.82 else \
            'other' if r < 0.94 else 'empty'
    if xdg == 'other' and not volumes:
        xdg = 'set'
    L.xdg = xdg
    if xdg == 'set':
        L.env['XDG_DATA_HOME'] = '@/' + L.home + '/xdg data'
    elif xdg == 'other':
        v = rng.choice(volumes)
        L.env['XDG_DATA_HOME'] = '@/' + v + '/xdg'
    elif xdg == 'empty':
        L.env['XDG_DATA_HOME'] = ''
    for v in L.mounts:
        if top_states is not None:
            ts = top_states.get(v, 'absent')
        else:
            ts = rng.choice(TRASH_STATES + ['absent', 'absent', 'sticky'])
        if alt_states is not None:
            al = alt_states.get(v, 'absent')
        else:
            al = rng.choice(ALT_STATES + ['absent', 'absent', 'dir'])
        if al == 'link_other' and len(L.mounts) < 2:
            al = 'absent'
        L.top_state[v] = ts
        L.alt_state[v] = al
        top = L.vol_path(v, '.Trash')
        if ts == 'sticky':
            L.add({'p': top, 't': 'd',
                   'm': rng.choice([0o1777, 0o1777, 0o1777, 0o3777, 0o1770])})
        elif ts == 'nonsticky':
            L.add({'p': top, 't': 'd',
                   'm': rng.choice([0o777, 0o777, 0o755, 0o2777, 0o4755, 0o6775])})
        elif ts in ('link_sticky', 'link_nonsticky'):
            tgt = L.vol_path(v, 'shared-trash')
            L.add({'p': tgt, 't': 'd',
                   'm': 0o1777 if ts == 'link_sticky' else 0o777})
            L.add({'p': top, 't': 'l', 'to': rng.choice(['shared-trash',
                                                         '@/' + tgt])})
        elif ts == 'file':
            L.add({'p': top, 't': 'f', 'c': 'i am a file'})
        alt = L.vol_path(v, '.Trash-%d' % L.uid)
        if al == 'dir':
            L.add({'p': alt, 't': 'd', 'm': 0o700})
        elif al == 'file':
            L.add({'p': alt, 't': 'f', 'c': 'not a dir'})
        elif al == 'link_other':
            others = [m for m in L.mounts if m != v]
            o = rng.choice(others)
            tgt = L.vol_path(o, 'alt-target-for-%s' % (v.replace('/', '_') or 'root'))
            L.add({'p': tgt, 't': 'd', 'm': 0o700})
            L.add({'p': alt, 't': 'l', 'to': '@/' + tgt})
    if trash_volumes_env is None:
        trash_volumes_env = rng.random() < 0.3
    if trash_volumes_env:
        items = ['@/' + m if m else '@' for m in L.mounts]
        if rng.random() < 0.3:
            # a list as users (and mount tables) produce them: a volume named
            # twice, trailing slashes, any order
            items = items + [rng.choice(items)]
            items = [x + '/' if rng.random() < 0.3 else x for x in items]
            rng.shuffle(items)
        L.env['TRASH_VOLUMES'] = ':'.join(items)
    if len(L.mounts) > 1 and rng.random() < 0.2:
        # volumes that are not local disks: network, fuse and WSL file systems
        # are volumes too (the root keeps a physical type)
        ft = {}
        for m in L.mounts:
            if m and rng.random() < 0.6:
                ft[m] = rng.choice(['nfs', 'nfs4', 'p9', 'fuse', 'fuse.mergerfs',
                                    'fuse.gocryptfs', 'fuse.glusterfs', 'btrfs',
                                    'xfs', 'vfat'])
        if ft:
            L.extra['fstypes_rel'] = ft
    if len(L.mounts) > 1 and rng.random() < 0.15:
        # the table of mounted file systems lists a mount point twice (two
        # devices / bind mounts on one directory) and in no particular order
        order = list(L.mounts) + [rng.choice(L.mounts)]
        rng.shuffle(order)
        L.extra['partition_order_rel'] = order
    if rng.random() < 0.25:
        # the kernel's copy calls transfer a few bytes at a time
        L.extra['short_io'] = rng.choice([1, 7, 16])
    if rng.random() < 0.1:
        # a set-uid wrapper: the effective uid is not the real one ($uid of the
        # specification is the real one)
        L.extra['euid'] = rng.choice([u for u in (0, 1000, 4242) if u != L.uid])
    if len(L.mounts) > 1 and rng.random() < 0.15:
        # inode numbers are per file system: the trash directories of two
        # volumes (and the home trash) carry the same number
        cands = [c for c in [L.home_trash()] if c]
        for m in L.mounts:
            cands += [L.vol_path(m, '.Trash-%d' % L.uid),
                      L.vol_path(m, '.Trash/%d' % L.uid)]
        L.extra['same_ino_rel'] = cands
    L.cwd = L.home
    return L


_counter = [0]


def uid_tag(prefix='e'):
    _counter[0] += 1
    return '%s%d' % (prefix, _counter[0])


ENTRY_KINDS = ['file', 'empty', 'tree', 'link_file', 'link_dir',
               'link_dangling', 'link_link', 'dir_empty']


def entry_nodes(rng, rel, kind, tag, link_target=None):
    """nodes creating one user entry at rel; content carries the unique tag"""
    if kind == 'file':
        return [{'p': rel, 't': 'f', 'c': 'content of %s\n' % tag * rng.randint(1, 3),
                 'm': rng.choice([0o644, 0o600, 0o755, 0o444, 0o640])}]
    if kind == 'empty':
        return [{'p': rel, 't': 'f', 'c': '', 'm': rng.choice([0o644, 0o600])}]
    if kind == 'dir_empty':
        return [{'p': rel, 't': 'd', 'm': rng.choice([0o755, 0o700, 0o775])}]
    if kind == 'tree':
        nodes = [{'p': rel, 't': 'd', 'm': rng.choice([0o755, 0o700, 0o750])}]
        depth = rng.randint(1, 3)
        cur = rel
        for d in range(depth):
            nodes.append({'p': cur + '/f%d' % d, 't': 'f',
                          'c': '%s file %d\n' % (tag, d),
                          'm': rng.choice([0o644, 0o600, 0o755])})
            if rng.random() < 0.5:
                nodes.append({'p': cur + '/l%d' % d, 't': 'l',
                              'to': rng.choice(['f%d' % d, '../nothing',
                                                '/nonexistent/%s' % tag,
                                                '.'])})
            if rng.random() < 0.3:
                nodes.append({'p': cur + '/' + hostile_name(rng, maxbytes=20),
                              't': 'f', 'c': '%s odd\n' % tag})
            cur = cur + '/sub%d' % d
            nodes.append({'p': cur, 't': 'd',
                          'm': rng.choice([0o755, 0o700, 0o555 | 0o200])})
        return nodes
    if kind == 'tree_fifo':
        # a directory holding a named pipe: rename(2) moves it like anything
        # else, a cross-device copy (shutil.copytree) refuses special files
        return [{'p': rel, 't': 'd', 'm': 0o755},
                {'p': rel + '/a-regular-file', 't': 'f', 'c': '%s first\n' % tag},
                {'p': rel + '/pipe', 't': 'p', 'm': 0o600},
                {'p': rel + '/z-last', 't': 'f', 'c': '%s last\n' % tag}]
    if kind == 'tree_locked':
        # a directory nobody may enter (mode 000) with content below it:
        # removable only after a chmod, which a purge must not need to survive
        return [{'p': rel, 't': 'd', 'm': 0o755},
                {'p': rel + '/a-file', 't': 'f', 'c': '%s a\n' % tag},
                {'p': rel + '/locked', 't': 'd', 'm': 0o000},
                {'p': rel + '/locked/inside', 't': 'f', 'c': '%s inside\n' % tag},
                {'p': rel + '/z-file', 't': 'f', 'c': '%s z\n' % tag}]
    if kind == 'tree_readonly':
        # read-only directories (an extracted archive, a go module cache)
        return [{'p': rel, 't': 'd', 'm': rng.choice([0o755, 0o555])},
                {'p': rel + '/a-file', 't': 'f', 'c': '%s a\n' % tag, 'm': 0o444},
                {'p': rel + '/ro', 't': 'd', 'm': 0o555},
                {'p': rel + '/ro/inside', 't': 'f', 'c': '%s inside\n' % tag, 'm': 0o444},
                {'p': rel + '/z-file', 't': 'f', 'c': '%s z\n' % tag}]
    if kind == 'hardlinked':
        # a file with a second name next to it: only the named one is trashed
        return [{'p': rel, 't': 'f', 'c': 'content of %s\n' % tag, 'm': 0o644},
                {'p': rel + '.second-name', 't': 'h', 'to': rel}]
    if kind in ('fifo', 'socket'):
        return [{'p': rel, 't': 'p' if kind == 'fifo' else 's',
                 'm': rng.choice([0o600, 0o644, 0o666])}]
    if kind.startswith('link'):
        return [{'p': rel, 't': 'l', 'to': link_target or 'nothing-%s' % tag}]
    raise ValueError(kind)
