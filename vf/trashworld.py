"""A world with several populated trash directories, for the checks of the
reading/purging commands (C08-C12, C14, C19, C20)."""
import os

from . import gen, putcheck, snap, spec, trashgen, world


def make(rng, index, n_entries=None, volumes=None, names=None, dates=None,
         kinds=None, home_own=None, top_sticky=True, with_top=None,
         xdg=None, uid=None, trash_volumes_env=None, tz=False):
    """returns (L, trashes, entries).
    trashes: list of dicts {rel, volume, home, kind}"""
    if volumes is None:
        volumes = rng.choice([[], ['v1'], ['v1'], ['v1', 'v2']])
    top_states = {}
    alt_states = {}
    L = gen.make_layout(rng, volumes=volumes, home_own_volume=home_own,
                        xdg=xdg if xdg is not None else
                        rng.choice(['unset', 'unset', 'set']),
                        top_states=top_states, alt_states=alt_states,
                        uid=uid, trash_volumes_env=trash_volumes_env)
    if rng.random() < 0.5:
        # the order in which a directory's entries are listed is arbitrary
        L.extra['listdir_seed'] = rng.getrandbits(30)
    if tz is False:
        tz = trashgen.pick_tz(rng)
    if tz:
        L.env['TZ'] = tz
    trashes = []
    ht = L.home_trash()
    hv = 'home' if 'home' in L.mounts else ''
    trashes.append({'rel': ht, 'volume': hv, 'home': True, 'kind': 'home'})
    for v in L.mounts:
        if v == 'home':
            continue
        if v == '' and rng.random() < 0.6:
            continue
        r = rng.random() if with_top is None else (0.0 if with_top else 0.9)
        if r < 0.45:
            top = L.vol_path(v, '.Trash')
            L.add({'p': top, 't': 'd', 'm': 0o1777})
            trashes.append({'rel': top + '/%d' % L.uid, 'volume': v,
                            'home': False, 'kind': 'top'})
        if r > 0.25:
            trashes.append({'rel': L.vol_path(v, '.Trash-%d' % L.uid),
                            'volume': v, 'home': False, 'kind': 'alt'})
    for t in trashes:
        L.add(world.ensure_trash_dirs(t['rel']))
        # what other implementations keep next to files/ and info/
        if rng.random() < 0.3:
            L.add({'p': t['rel'] + '/directorysizes', 't': 'f',
                   'c': '4096 1700000000 some%20dir\n'})
        if rng.random() < 0.1:
            L.add({'p': t['rel'] + '/' + rng.choice(['metadata', '.DS_Store', 'expunged']),
                   't': rng.choice(['f', 'd'])})
        elif rng.random() < 0.08:
            # what gvfs keeps next to files/ and info/: a directory of items it
            # could not delete - with content, or (hostile) a link to elsewhere.
            # Not trash-cli's business: never to be touched
            ex = t['rel'] + '/expunged'
            if rng.random() < 0.5:
                L.add({'p': ex, 't': 'd', 'm': 0o700})
                L.add({'p': ex + '/1234567', 't': 'd'})
                L.add({'p': ex + '/1234567/leftover', 't': 'f', 'c': 'expunged leftover'})
                L.add({'p': ex + '/item', 't': 'f', 'c': 'expunged item'})
            else:
                tgt = (L.home or '') + '/kept-elsewhere-%d' % index
                L.add({'p': tgt, 't': 'd'})
                L.add({'p': tgt + '/precious', 't': 'f', 'c': 'precious %d' % index})
                L.add({'p': ex, 't': 'l', 'to': '@/' + tgt})
    if n_entries is None:
        n_entries = rng.randint(1, 8)
    entries = []
    for i in range(n_entries):
        t = rng.choice(trashes)
        tag = 'c%de%d' % (index, i)
        if names is not None:
            nm = names[i % len(names)]
        else:
            nm = gen.hostile_name(rng, allow_bad_utf8=False, maxbytes=30)
        sub = rng.choice(['docs', 'docs/deep', 'a b', ''])
        if rng.random() < 0.04:
            # a legal location (< PATH_MAX) whose escaped form exceeds 8 KiB
            unit = rng.choice(['\u4e2d', '\u00e9 ', '% '])
            comps = []
            for lvl in range(rng.randint(9, 12)):
                c = 'l%d' % lvl + unit * 100
                while len(c.encode('utf-8')) > 240:
                    c = c[:-1]
                comps.append(c)
            sub = '/'.join(comps)
        base = (L.home if t['home'] else t['volume'])
        locdir = '/'.join(x for x in (base, sub) if x)
        loc = (locdir + '/' + nm) if locdir else nm
        date = dates[i % len(dates)] if dates else trashgen.rand_date(rng, tz=tz)
        kind = rng.choice(kinds or trashgen.PAYLOAD_KINDS)
        tname = 'n%d' % i if rng.random() < 0.4 else \
            (nm if len(nm.encode('utf-8', 'surrogateescape')) < 200 and
             '/' not in nm else 'n%d' % i)
        if any(e['trash'] == t['rel'] and e['name'] == tname for e in entries):
            tname = 'n%d_%d' % (i, i)
        e = trashgen.add_trashed(L, rng, t['rel'], tname, loc, date, kind, tag,
                                 volume_rel=t['volume'], home=t['home'])
        e['tkind'] = t['kind']
        entries.append(e)
    if entries and kinds is None and rng.random() < 0.15:
        # an entry whose payload is a symlink that resolves to ANOTHER entry's
        # payload (report.txt and 'latest -> report.txt' trashed together)
        o = rng.choice(entries)
        t = [x for x in trashes if x['rel'] == o['trash']][0]
        if '/' not in o['name'] and '\n' not in o['name']:
            base = (L.home if t['home'] else t['volume'])
            loc = '/'.join(x for x in (base, 'docs', 'latest-%d' % index) if x)
            date = dates[0] if dates else trashgen.rand_date(rng, tz=tz)
            e = trashgen.add_trashed(L, rng, t['rel'], 'latest-%d' % index, loc,
                                     date, 'link_dangling', 'c%dsib' % index,
                                     volume_rel=t['volume'], home=t['home'],
                                     link_target=o['name'])
            e['tkind'] = t['kind']
            e['kind'] = 'link_sibling'
            entries.append(e)
    # a trash directory below something whose NAME contains "info" (the home
    # of an account called sysinfo): bystanders where a payload path derived
    # by searching for that word - instead of taking the parent of info/ -
    # would point
    have = set(nd['p'] for nd in L.nodes)
    for e in entries:
        t = e['trash']
        if 'info' in t:
            head = t[:t.index('info')]
            for by in (head + 'files/' + e['name'],
                       os.path.join(head, 'files', e['name'])):
                if by not in have and not any(h.startswith(by + '/') for h in have):
                    L.add({'p': by, 't': 'f', 'c': 'bystander of %s\n' % e['name']})
                    have.add(by)
    return L, trashes, entries


def unremovable(e, case):
    """the payload cannot be removed by a purge: permissions (only when the
    run is made without the capabilities that ignore them), or a file system
    is mounted on the trashed directory"""
    return bool(e.get('mountpoint')) or (
        e['kind'] in ('tree_locked', 'tree_readonly') and bool(case.get('drop_caps')))


def mount_on_payload(L, rng, entries, p=1.0):
    """a file system is mounted on one trashed directory (files/<name> is a
    mount point: rmdir and rename answer EBUSY)"""
    c = [e for e in entries if e['kind'] in ('tree', 'dir_empty')]
    if not c or rng.random() >= p:
        return None
    e = rng.choice(c)
    e['mountpoint'] = True
    L.mounts.append(pair_keys(e)[1])
    return e


def pair_keys(e):
    return ('%s/info/%s.trashinfo' % (e['trash'], e['name']),
            '%s/files/%s' % (e['trash'], e['name']))


def entry_state(s0, s1, e):
    """'intact' | 'gone' | 'info-only-left' | 'payload-only-left' | 'changed'"""
    ik, pk = pair_keys(e)
    i0, i1 = s0.get(ik), s1.get(ik)
    p0, p1 = snap.subtree(s0, pk), snap.subtree(s1, pk)
    if i1 == i0 and p1 == p0:
        return 'intact'
    if i1 is None and not p1:
        return 'gone'
    if i1 is not None and not p1:
        return 'info-only-left' if i1 == i0 else 'changed'
    if i1 is None and p1:
        return 'payload-only-left' if p1 == p0 else 'changed'
    return 'changed'


def outside_trash_diff(s0, s1, trashes):
    """differences outside files/ and info/ of the given trash dirs"""
    pre = []
    for t in trashes:
        pre.append(t + '/files')
        pre.append(t + '/info')
    out = []
    for k, x, y in snap.diff(putcheck.norm_sig(s0), putcheck.norm_sig(s1)):
        if any(k.startswith(p + '/') for p in pre):
            continue
        out.append((k, snap.fmt_entry(x), snap.fmt_entry(y)))
    return out


def created_inside(s0, s1, trashes):
    """paths inside the trash dirs that exist after a purging command but did
    not exist before it (purging commands only remove)"""
    out = []
    for k in s1:
        if k not in s0 and any(k == t or k.startswith(t + '/') for t in trashes):
            out.append(k)
    return sorted(out)
