"""cold mode: installs the shim in a fresh interpreter when TRASHCLI_VERIF=1
and VF_PLAN names a JSON file {root, mounts, uid, plan, log, contracts}."""
import os
import sys

if os.environ.get('TRASHCLI_VERIF') == '1' and os.environ.get('VF_PLAN'):
    try:
        import json
        with open(os.environ['VF_PLAN']) as _f:
            _p = json.load(_f)
        _here = os.path.dirname(os.path.dirname(os.path.dirname(
            os.path.abspath(__file__))))
        if _here not in sys.path:
            sys.path.append(_here)
        sys.dont_write_bytecode = True
        from vf import shim as _shim
        _fd = os.open(_p['log'], os.O_WRONLY | os.O_CREAT | os.O_APPEND, 0o600)
        _sh = _shim.install(_p['root'], _p['mounts'], _p['uid'], _p['plan'], _fd)
        if _p.get('contracts'):
            from vf import contracts as _c
            _c.bind(_p['contracts'], _sh)
        import atexit
        atexit.register(_shim.finish)
    except Exception as _e:                      # never break the command
        sys.stderr.write('vf sitecustomize: %r\n' % (_e,))
