"""Generators for pre-populated trash directories."""
import os

from . import gen, spec, world

PAYLOAD_KINDS = ['file', 'empty', 'tree', 'link_file', 'link_dangling',
                 'dir_empty']


def payload(rng, kind, tag, link_target=None):
    """nodes relative to the payload root ('' = the payload itself)"""
    nodes = gen.entry_nodes(rng, 'X', kind, tag, link_target)
    out = []
    for nd in nodes:
        nd = dict(nd)
        nd['p'] = nd['p'][1:].lstrip('/') if nd['p'] != 'X' else ''
        out.append(nd)
    return out


def path_value(loc_rel, volume_rel, home):
    """the Path= value for an entry whose original location is R/loc_rel"""
    raw = loc_rel.encode('utf-8', 'surrogateescape')
    if home:
        return '@@R@@/' + spec.pct_encode(raw)
    if volume_rel:
        assert loc_rel.startswith(volume_rel + '/'), (loc_rel, volume_rel)
        raw = loc_rel[len(volume_rel) + 1:].encode('utf-8', 'surrogateescape')
    return spec.pct_encode(raw)


def add_trashed(L, rng, tdir_rel, name, loc_rel, date, kind, tag,
                volume_rel='', home=False, link_target=None, info=True,
                with_payload=True, info_text=None):
    """adds one trash entry; returns its description"""
    L.add(world.ensure_trash_dirs(tdir_rel))
    pv = path_value(loc_rel, volume_rel, home)
    text = info_text if info_text is not None else \
        world.trashinfo_text(pv, date)
    nodes = []
    if info:
        nodes.append({'p': '%s/info/%s.trashinfo' % (tdir_rel, name),
                      't': 'f', 'c': text, 'm': 0o600, 'sub': True})
    if with_payload:
        for nd in payload(rng, kind, tag, link_target):
            nd['p'] = '%s/files/%s' % (tdir_rel, name) + \
                ('/' + nd['p'] if nd['p'] else '')
            nodes.append(nd)
    L.add(nodes)
    return {'trash': tdir_rel, 'name': name, 'loc': loc_rel, 'date': date,
            'kind': kind, 'home': home, 'volume': volume_rel}


# time zones with daylight saving and local times around their switches
# (naive DeletionDate values are wall-clock readings: code that converts them
# through mktime/timestamp() is off by an hour around these)
DST_ZONES = {
    'Europe/Rome': ['2024-03-31T01:59:59', '2024-03-31T02:30:00',
                    '2024-03-31T03:00:00', '2024-03-31T03:10:00',
                    '2024-10-27T01:30:00', '2024-10-27T02:30:00',
                    '2024-10-27T03:00:01', '2024-10-26T02:30:00',
                    '2024-03-30T02:30:00'],
    'EST5EDT,M3.2.0,M11.1.0': ['2024-03-10T01:59:59', '2024-03-10T02:30:00',
                               '2024-03-10T03:10:00', '2024-11-03T01:30:00',
                               '2024-11-03T02:00:00', '2024-11-03T00:59:59',
                               '2024-03-09T02:30:00', '2024-11-02T01:30:00'],
    'Australia/Lord_Howe': ['2024-10-06T02:00:00', '2024-10-06T02:15:00',
                            '2024-10-06T02:40:00', '2024-04-07T01:45:00',
                            '2024-04-07T01:30:00', '2024-04-07T02:10:00'],
}
PLAIN_ZONES = ['UTC', 'Asia/Kolkata', 'Pacific/Kiritimati', 'Etc/GMT+12']


def pick_tz(rng, p_dst=0.12, p_plain=0.06):
    """None (harness default) / a zone name; DST zones come with their edges"""
    r = rng.random()
    if r < p_dst:
        return rng.choice(sorted(DST_ZONES))
    if r < p_dst + p_plain:
        return rng.choice(PLAIN_ZONES)
    return None


def rand_date(rng, lo=2001, hi=2030, tz=None):
    if tz in DST_ZONES and rng.random() < 0.7:
        return rng.choice(DST_ZONES[tz])
    return '%04d-%02d-%02dT%02d:%02d:%02d' % (
        rng.randint(lo, hi), rng.randint(1, 12), rng.randint(1, 28),
        rng.randint(0, 23), rng.randint(0, 59), rng.randint(0, 59))


def safe_trash_name(rng, i):
    return rng.choice(['e%d' % i, 'entry %d' % i, 'x_%d' % i, 'é%d' % i,
                       'n%d.txt' % i, '%d' % i])
