"""Generators for pre-populated trash directories."""
import os

from . import gen, spec, world

PAYLOAD_KINDS = ['file', 'empty', 'tree', 'link_file', 'link_dangling',
                 'dir_empty']


def payload(rng, kind, tag, link_target=None):
    """nodes relative to the payload root ('' = the payload itself)"""
    nodes = gen.entry_nodes(rng, 'X', kind, tag, link_target)
    out = []
    for nd in nodes:
        nd = dict(nd)
        nd['p'] = nd['p'][1:].lstrip('/') if nd['p'] != 'X' else ''
        out.append(nd)
    return out


def path_value(loc_rel, volume_rel, home):
    """the Path= value for an entry whose original location is R/loc_rel"""
    raw = loc_rel.encode('utf-8', 'surrogateescape')
    if home:
        return '@@R@@/' + spec.pct_encode(raw)
    if volume_rel:
        assert loc_rel.startswith(volume_rel + '/'), (loc_rel, volume_rel)
        raw = loc_rel[len(volume_rel) + 1:].encode('utf-8', 'surrogateescape')
    return spec.pct_encode(raw)


def add_trashed(L, rng, tdir_rel, name, loc_rel, date, kind, tag,
                volume_rel='', home=False, link_target=None, info=True,
                with_payload=True, info_text=None):
    """adds one trash entry; returns its description"""
    L.add(world.ensure_trash_dirs(tdir_rel))
    pv = path_value(loc_rel, volume_rel, home)
    text = info_text if info_text is not None else \
        world.trashinfo_text(pv, date)
    nodes = []
    if info:
        nodes.append({'p': '%s/info/%s.trashinfo' % (tdir_rel, name),
                      't': 'f', 'c': text, 'm': 0o600, 'sub': True})
    if with_payload:
        for nd in payload(rng, kind, tag, link_target):
            nd['p'] = '%s/files/%s' % (tdir_rel, name) + \
                ('/' + nd['p'] if nd['p'] else '')
            nodes.append(nd)
    L.add(nodes)
    return {'trash': tdir_rel, 'name': name, 'loc': loc_rel, 'date': date,
            'kind': kind, 'home': home, 'volume': volume_rel}


def rand_date(rng, lo=2001, hi=2030):
    return '%04d-%02d-%02dT%02d:%02d:%02d' % (
        rng.randint(lo, hi), rng.randint(1, 12), rng.randint(1, 28),
        rng.randint(0, 23), rng.randint(0, 59), rng.randint(0, 59))


def safe_trash_name(rng, i):
    return rng.choice(['e%d' % i, 'entry %d' % i, 'x_%d' % i, 'é%d' % i,
                       'n%d.txt' % i, '%d' % i])
