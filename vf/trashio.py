"""Independent reader of on-disk trash directories and of the commands'
listings (used by the oracles; no trashcli code)."""
import os
import re

from . import spec

LIST_LINE = re.compile(
    r'^(\d{4}-\d\d-\d\d \d\d:\d\d:\d\d|\?\?\?\?-\?\?-\?\? \?\?:\?\?:\?\?) (.*)$')
RESTORE_LINE = re.compile(
    r'^\s*(\d+) (\d{4}-\d\d-\d\d \d\d:\d\d:\d\d|None) (.*)$')


def parse_restore_listing(stdout_text):
    """[(index, date_text, path)]; continuation lines (paths containing
    newlines) are glued to the previous entry"""
    out = []
    for line in stdout_text.split('\n'):
        m = RESTORE_LINE.match(line)
        if m and int(m.group(1)) == len(out):
            out.append([int(m.group(1)), m.group(2), m.group(3)])
        elif line.startswith('What file to restore [') or \
                line.startswith('No files trashed from current dir'):
            break
        elif out:
            out[-1][2] += '\n' + line
    return [tuple(x) for x in out]


def parse_list_output(stdout_text):
    out = []
    for line in stdout_text.split('\n'):
        m = LIST_LINE.match(line)
        if m:
            out.append([m.group(1), m.group(2)])
        elif out and line != '':
            out[-1][1] += '\n' + line
        elif out and line == '' and False:
            pass
    return [tuple(x) for x in out]


def read_info(path):
    with open(path, 'rb') as f:
        return f.read()


def info_location(info_bytes, trash_dir, volume, is_home):
    """absolute original location (str) recorded in an info file, by the
    spec: absolute Path kept; relative Path resolved against the volume top"""
    pi = spec.parse_info(info_bytes)
    if pi['path'] is None:
        return None, pi
    p = pi['path'].decode('utf-8', 'surrogateescape')
    if p.startswith('/'):
        return p, pi
    return os.path.join(volume, p), pi


def scan_trash(tdir):
    """{name: {'info': bytes|None, 'payload': bool}} for one trash dir"""
    out = {}
    idir = os.path.join(tdir, 'info')
    fdir = os.path.join(tdir, 'files')
    try:
        for n in os.listdir(idir):
            if n.endswith('.trashinfo'):
                p = os.path.join(idir, n)
                try:
                    data = read_info(p) if not os.path.isdir(p) else None
                except OSError:
                    data = None
                out.setdefault(n[:-len('.trashinfo')], {})['info'] = data
    except OSError:
        pass
    try:
        for n in os.listdir(fdir):
            out.setdefault(n, {})['payload'] = True
    except OSError:
        pass
    for v in out.values():
        v.setdefault('info', None)
        v.setdefault('payload', False)
    return out
