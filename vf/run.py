"""E3 - runner: executes the real /repo scripts.

fork mode: the (single-threaded) check worker imports trashcli once from the
current /repo tree; each command is a fork whose child installs the shim and
runs the script file itself through runpy, then _exit()s with the status the
interpreter would have given.

cold mode: a real subprocess of /venv/bin/python with sitecustomize from
vf/boot installing the same shim (see run_cold).
"""
import io
import json
import os
import select
import signal
import sys
import time
import traceback

HERE = os.path.dirname(os.path.abspath(__file__))
REPO = os.environ.get('VERIF_REPO', '/repo')
PY = os.environ.get('VERIF_PY', '/venv/bin/python')
WATCHDOG_S = float(os.environ.get('VERIF_WATCHDOG_S', '30'))

SCRIPTS = {'put': 'trash-put', 'list': 'trash-list', 'restore': 'trash-restore',
           'empty': 'trash-empty', 'rm': 'trash-rm'}

_prepared = False

# contracts bound in every forked run unless VERIF_CONTRACTS=0; failures and
# evaluation counts of the current case are collected here for the driver
DEFAULT_CONTRACTS = ['format_trashinfo', 'for_file', 'parse_indexes',
                     'older_than', 'Filter.matches', 'scope', 'parse_path',
                     'parse_deletion_date'] \
    if os.environ.get('VERIF_CONTRACTS', '1') != '0' else None
DEFAULT_PLAN = {}
CONTRACT_FAILS = []
FD_LEAKS = []          # runs that ended with descriptors open on sandbox objects
CONTRACT_COUNTS = {}


def prepare():
    """import the code under test once, from REPO, and check it is REPO's."""
    global _prepared
    if _prepared:
        return
    sys.dont_write_bytecode = True
    if REPO not in sys.path:
        sys.path.insert(0, REPO)
    import trashcli
    src = os.path.dirname(os.path.abspath(trashcli.__file__))
    if os.path.realpath(src) != os.path.realpath(os.path.join(REPO, 'trashcli')):
        raise RuntimeError('trashcli imported from %s, not %s' % (src, REPO))
    import trashcli.put.main, trashcli.list.main, trashcli.restore.main  # noqa
    import trashcli.empty.main, trashcli.rm.main  # noqa
    import runpy, argparse, psutil, shutil, random, datetime  # noqa
    try:
        import gettext
        gettext.translation('argparse', fallback=True)
    except Exception:
        pass
    _prepared = True


class Result(object):
    __slots__ = ('exit', 'out', 'err', 'events', 'crash', 'summary',
                 'contracts', 'signal', 'timeout', 'wall', 'argv', 'incomplete',
                 'ccounts', 'prompt_seen')

    def __init__(self):
        self.exit = None
        self.out = b''
        self.err = b''
        self.events = []
        self.crash = None
        self.summary = None
        self.contracts = []
        self.signal = None
        self.timeout = False
        self.wall = 0.0
        self.argv = None
        self.prompt_seen = None
        self.incomplete = None
        self.ccounts = {}

    # -- convenience
    def mut(self):
        return [e for e in self.events if e['c'] == 'M']

    def errtext(self):
        return self.err.decode('utf-8', 'replace')

    def outtext(self):
        return self.out.decode('utf-8', 'replace')

    def escapes(self):
        return [e for e in self.events if e.get('r') == 'escape']

    def audit_ok(self):
        s = self.summary
        if s is None:
            return None
        return s['audit'] == s['wrapped']

    def fd_leak(self):
        """number of descriptors still open on sandbox objects when the
        command ended (None: the run did not reach its end)"""
        if not self.summary or 'open_fds' not in self.summary:
            return None
        return self.summary['open_fds']

    def brief(self):
        return {'argv': self.argv, 'exit': self.exit,
                'out': self.outtext()[-600:], 'err': self.errtext()[-900:],
                'n_events': len(self.events)}


def parse_log(data, res):
    by_k = {}
    for line in data.split(b'\n'):
        if not line:
            continue
        tag = line[:1]
        try:
            obj = json.loads(line[2:].decode('ascii'))
        except ValueError:
            continue
        if tag == b'B':
            by_k[obj['k']] = obj
            res.events.append(obj)
        elif tag == b'A':
            ev = by_k.get(obj['k'])
            if ev is not None:
                ev['r'] = obj['r']
                if 'e' in obj:
                    ev['e'] = obj['e']
                if 'tgt' in obj:
                    ev['tgt'] = obj['tgt']
                if 't' in obj:
                    ev['t'] = obj['t']
        elif tag == b'X':
            res.crash = obj
        elif tag == b'S':
            res.summary = obj
        elif tag == b'C':
            res.contracts.append(obj)
        elif tag == b'K':
            res.ccounts = obj.get('counts', {})
    if res.events and 'r' not in res.events[-1]:
        res.incomplete = res.events[-1]['k']


class _FailingRaw(io.RawIOBase):
    """the diagnostic stream with one failing write: the k-th write(2) on
    stderr returns an error (EPIPE: the reader went away; ENOSPC/EFBIG: the
    log file is full); every later one fails too"""

    def __init__(self, raw, k, err, real_pipe=False):
        self.raw, self.k, self.err, self.n, self.sink = raw, k, err, 0, None
        # real_pipe: from the k-th write on, descriptor 2 IS a pipe nobody
        # reads: the kernel answers EPIPE - or kills the process with SIGPIPE
        # if the program restored the default disposition of that signal
        self.real_pipe = real_pipe

    def writable(self):
        return True

    def fileno(self):
        return self.raw.fileno()

    def write(self, b):
        self.n += 1
        if self.n >= self.k:
            if self.sink is not None and self.n == self.k:
                self.sink.log_json('X', {'k': -1, 'why': 'stderr-write-failed',
                                         'n': self.n, 'text': bytes(b)[:80].decode('ascii', 'replace')})
            if self.real_pipe:
                if self.n == self.k:
                    r_, w_ = os.pipe()
                    os.close(r_)
                    os.dup2(w_, 2)
                    os.close(w_)
                return os.write(2, bytes(b))
            raise OSError(self.err, os.strerror(self.err))
        return self.raw.write(b)


def _child(script, argv, env, cwd, stdin_fd, out_fd, err_fd, logfd, world,
           plan, contracts):
    code = 1
    try:
        os.dup2(stdin_fd, 0)
        os.dup2(out_fd, 1)
        os.dup2(err_fd, 2)
        for fd in (stdin_fd, out_fd, err_fd):
            if fd > 2:
                os.close(fd)
        os.chdir(cwd)
        os.environ.clear()
        os.environ.update(env)
        try:
            import time as _time
            _time.tzset()            # TZ of the case, not of the harness
        except Exception:
            pass
        sys.argv = list(argv)
        if (plan or {}).get('stdin_closed'):
            # started with descriptor 0 closed (cron, `cmd <&-`): the next
            # descriptor the program opens IS number 0
            os.close(0)
            sys.stdin = None
        else:
            sys.stdin = io.TextIOWrapper(io.FileIO(0, 'r', closefd=False),
                                         encoding='utf-8', errors='strict')
        # the encoding of the standard streams is the locale's: the case may
        # ask for another one (PYTHONIOENCODING / a legacy locale)
        enc = (plan or {}).get('stdout_encoding') or 'utf-8'
        sys.stdout = io.TextIOWrapper(io.FileIO(1, 'w', closefd=False),
                                      encoding=enc, errors='strict')
        raw_err = io.FileIO(2, 'w', closefd=False)
        fail_at = (plan or {}).get('stderr_fail_at')
        if fail_at:
            raw_err = _FailingRaw(raw_err, int(fail_at),
                                  (plan or {}).get('stderr_errno', 32),
                                  bool((plan or {}).get('stderr_real_pipe')))
        sys.stderr = io.TextIOWrapper(raw_err, encoding=enc,
                                      errors='backslashreplace',
                                      line_buffering=True)
        from . import shim
        sh = shim.install(world.R, world.mounts, world.uid, plan, logfd)
        if fail_at:
            raw_err.sink = sh
        if contracts:
            from . import contracts as _c
            _c.SINK.reset()
            _c.bind(contracts, sh)
        import runpy
        if plan and plan.get('umask') is not None:
            os.umask(int(plan['umask']))
        if plan and plan.get('recursion_limit'):
            # scaled-down stand-in for "deeper than the interpreter's
            # recursion limit" (trees of ~1000 levels cost O(depth^2) path walks)
            sys.setrecursionlimit(int(plan['recursion_limit']))
        try:
            runpy.run_path(script, run_name='__main__')
            code = 0
        except SystemExit as e:
            c = e.code
            if c is None:
                code = 0
            elif isinstance(c, int):
                code = c & 0xff
            else:
                try:
                    sys.stderr.write(str(c) + '\n')
                except Exception:
                    pass
                code = 1
        except BaseException:
            try:
                traceback.print_exc()
            except Exception:
                pass
            code = 1
        try:
            sys.stdout.flush()
        except Exception:
            try:
                traceback.print_exc()
            except Exception:
                pass
            if code == 0:
                code = 120
        try:
            sys.stderr.flush()
        except Exception:
            pass
        shim.finish()
    except BaseException:
        try:
            os.write(2, traceback.format_exc().encode('utf-8', 'replace'))
        except Exception:
            pass
        code = 111
    finally:
        os._exit(code)


def _plan_from_desc(world, plan):
    """run-wide plan defaults carried by the world descriptor"""
    d = getattr(world, 'desc', None)
    if not d:
        return
    if d.get('drop_caps'):
        plan['drop_caps'] = True      # permissions bite as for an ordinary owner
    if d.get('partition_order_rel') and not plan.get('partition_order'):
        plan['partition_order'] = [world.abs(m) for m in d['partition_order_rel']]
    if d.get('fstypes_rel') and not plan.get('fstypes'):
        plan['fstypes'] = dict((world.abs(m), t) for m, t in
                               d['fstypes_rel'].items())
    for k in ('umask', 'listdir_seed', 'euid', 'short_io'):
        # listdir_seed: readdir order of this world; euid: the effective uid
        # differs from the real one (set-uid wrapper)
        if d.get(k) is not None and plan.get(k) is None:
            plan[k] = d[k]
    if d.get('ro_volumes_rel') and not plan.get('ro_volumes'):
        plan['ro_volumes'] = [world.abs(m) for m in d['ro_volumes_rel']]
    if d.get('same_ino_rel') and not plan.get('same_ino'):
        # inode numbers coincide across volumes (they are per file system)
        plan['same_ino'] = [world.abs(m) for m in d['same_ino_rel']]



def run_cmd(world, cmd, args, stdin=b'', plan=None, cwd=None, env=None,
            contracts=None, argv0=None, watchdog=None, sched_sock=None,
            pty_stdin=False):
    """run one trash-cli command in the world; returns Result"""
    prepare()
    script = os.path.join(REPO, SCRIPTS.get(cmd, cmd))
    argv = [argv0 or script] + list(args)
    e = dict(world.env())
    if env:
        for k, v in env.items():
            if v is None:
                e.pop(k, None)
            else:
                e[k] = v
    if cmd == 'put' and 'TRASH_PUT_FAKE_UID_FOR_TESTING' not in e:
        pass  # os.getuid is patched by the shim; keep the env like a user's
    plan = dict(DEFAULT_PLAN, **(plan or {}))
    _plan_from_desc(world, plan)
    if contracts is None:
        contracts = DEFAULT_CONTRACTS
    cwd = cwd or world.cwd()
    res = Result()
    res.argv = [cmd] + list(args)
    logpath = os.path.join(world.scratch, 'log.%d' % time.monotonic_ns())
    logfd = os.open(logpath, os.O_WRONLY | os.O_CREAT | os.O_APPEND, 0o600)
    if pty_stdin:
        import pty
        in_w, in_r = pty.openpty()        # master, slave
    else:
        in_r, in_w = os.pipe()
    out_r, out_w = os.pipe()
    err_r, err_w = os.pipe()
    if sched_sock is not None:
        plan['sched'] = dict(plan.get('sched') or {}, fd=sched_sock.fileno())
    t0 = time.monotonic()
    sys.stdout.flush()
    sys.stderr.flush()
    pid = os.fork()
    if pid == 0:
        try:
            os.close(in_w)
            os.close(out_r)
            os.close(err_r)
        except OSError:
            pass
        _child(script, argv, e, cwd, in_r, out_w, err_w, logfd, world, plan,
               contracts)
    os.close(in_r)
    os.close(out_w)
    os.close(err_w)
    os.close(logfd)
    return pid, (res, in_w, out_r, err_r, logpath, t0, stdin, watchdog,
                 pty_stdin)


def finish_cmd(pid, st, at_prompt=None):
    """at_prompt = (bytes to wait for on stdout, callable): the reply on
    stdin is held back until the command has printed its prompt; the callable
    runs in between (a user doing something in another terminal before
    answering)"""
    res, in_w, out_r, err_r, logpath, t0, stdin, watchdog, is_pty = st
    watchdog = watchdog or WATCHDOG_S
    bufs = {out_r: [], err_r: []}
    live = [out_r, err_r]
    deadline = t0 + watchdog
    if at_prompt:
        marker, action = at_prompt
        seen = False
        while live and not seen and time.monotonic() < deadline:
            r, _, _ = select.select(live, [], [], 0.5)
            for fd in r:
                d = os.read(fd, 65536)
                if d:
                    bufs[fd].append(d)
                else:
                    live.remove(fd)
            if marker in b''.join(bufs[out_r]):
                seen = True
        res.prompt_seen = seen
        if seen:
            action()
    try:
        if stdin:
            try:
                os.write(in_w, stdin[:65536])
            except OSError:
                pass
    finally:
        if not is_pty:
            os.close(in_w)
    while live:
        tmo = deadline - time.monotonic()
        if tmo <= 0:
            res.timeout = True
            try:
                os.kill(pid, signal.SIGKILL)
            except OSError:
                pass
            break
        r, _, _ = select.select(live, [], [], min(tmo, 5.0))
        for fd in r:
            d = os.read(fd, 65536)
            if d:
                bufs[fd].append(d)
            else:
                live.remove(fd)
    _, status = os.waitpid(pid, 0)
    if is_pty:
        os.close(in_w)
    for fd in (out_r, err_r):
        # drain what is left after a kill
        try:
            while fd in live:
                r, _, _ = select.select([fd], [], [], 0)
                if not r:
                    break
                d = os.read(fd, 65536)
                if not d:
                    break
                bufs[fd].append(d)
        except OSError:
            pass
        os.close(fd)
    res.out = b''.join(bufs[out_r])
    res.err = b''.join(bufs[err_r])
    if os.WIFSIGNALED(status):
        res.signal = os.WTERMSIG(status)
        res.exit = -res.signal
    else:
        res.exit = os.WEXITSTATUS(status)
    res.wall = time.monotonic() - t0
    try:
        with open(logpath, 'rb') as f:
            parse_log(f.read(), res)
        os.unlink(logpath)
    except OSError:
        pass
    for c in res.contracts:
        if len(CONTRACT_FAILS) < 20:
            CONTRACT_FAILS.append(dict(c, argv=res.argv))
    if res.fd_leak() and len(FD_LEAKS) < 20 and not res.crash and \
            not any(e.get('r') == 'F' for e in res.events):
        # (runs with an injected fault, crash or interrupt are not judged:
        # a process that is about to die may leave a descriptor to the kernel)
        FD_LEAKS.append({'argv': res.argv, 'open': res.fd_leak(),
                         'sample': res.summary.get('open_fd_sample')})
    for k, n in res.ccounts.items():
        CONTRACT_COUNTS[k] = CONTRACT_COUNTS.get(k, 0) + n
    return res


MODE = 'fork'
COLD_LOCALE = None      # env overrides for fresh-interpreter runs (locale)


def run(world, cmd, args, **kw):
    at_prompt = kw.pop('at_prompt', None)
    if MODE == 'cold' and not kw.get('pty_stdin') and not kw.get('sched_sock') \
            and not at_prompt:
        return run_cold(world, cmd, args, **kw)
    pid, st = run_cmd(world, cmd, args, **kw)
    return finish_cmd(pid, st, at_prompt=at_prompt)


def run_cold(world, cmd, args, stdin=b'', plan=None, cwd=None, env=None,
             contracts=None, argv0=None, watchdog=None, **_ignored):
    """the same command in a FRESH interpreter: a real subprocess of
    /venv/bin/python running the script, the shim installed by
    vf/boot/sitecustomize.py (TRASHCLI_VERIF=1)"""
    import subprocess
    script = os.path.join(REPO, SCRIPTS.get(cmd, cmd))
    e = dict(world.env())
    if env:
        for k, v in env.items():
            if v is None:
                e.pop(k, None)
            else:
                e[k] = v
    plan = dict(DEFAULT_PLAN, **(plan or {}))
    _plan_from_desc(world, plan)
    if contracts is None:
        contracts = DEFAULT_CONTRACTS
    res = Result()
    res.argv = [cmd] + list(args)
    tag = time.monotonic_ns()
    logpath = os.path.join(world.scratch, 'log.%d' % tag)
    planpath = os.path.join(world.scratch, 'plan.%d.json' % tag)
    with open(planpath, 'w') as f:
        json.dump({'root': world.R, 'mounts': world.mounts, 'uid': world.uid,
                   'plan': plan, 'log': logpath, 'contracts': contracts}, f)
    e.update({'TRASHCLI_VERIF': '1', 'VF_PLAN': planpath,
              'PYTHONPATH': os.path.join(HERE, 'boot') + os.pathsep + REPO,
              'PYTHONDONTWRITEBYTECODE': '1', 'LC_ALL': 'C.UTF-8',
              'PYTHONIOENCODING': '%s:strict' % (
                  (plan or {}).get('stdout_encoding') or 'utf-8'),
              'PYTHONHASHSEED': '0'})
    if COLD_LOCALE:
        e.update(COLD_LOCALE)        # the locale this case asks for
    t0 = time.monotonic()
    try:
        p = subprocess.run([PY, script] + list(args), input=stdin, env=e,
                           cwd=cwd or world.cwd(), capture_output=True,
                           timeout=watchdog or WATCHDOG_S)
        res.exit = p.returncode if p.returncode >= 0 else p.returncode
        if p.returncode < 0:
            res.signal = -p.returncode
        res.out, res.err = p.stdout, p.stderr
    except subprocess.TimeoutExpired as ex:
        res.timeout = True
        res.exit = -9
        res.out, res.err = ex.stdout or b'', ex.stderr or b''
    res.wall = time.monotonic() - t0
    try:
        with open(logpath, 'rb') as f:
            parse_log(f.read(), res)
        os.unlink(logpath)
    except OSError:
        pass
    try:
        os.unlink(planpath)
    except OSError:
        pass
    for c in res.contracts:
        if len(CONTRACT_FAILS) < 20:
            CONTRACT_FAILS.append(dict(c, argv=res.argv))
    if res.fd_leak() and len(FD_LEAKS) < 20 and not res.crash and \
            not any(e.get('r') == 'F' for e in res.events):
        # (runs with an injected fault, crash or interrupt are not judged:
        # a process that is about to die may leave a descriptor to the kernel)
        FD_LEAKS.append({'argv': res.argv, 'open': res.fd_leak(),
                         'sample': res.summary.get('open_fd_sample')})
    for k, n in res.ccounts.items():
        CONTRACT_COUNTS[k] = CONTRACT_COUNTS.get(k, 0) + n
    return res
