"""Outcome analysis of one trash-put run from two snapshots: per argument
TRASHED / UNTOUCHED / something else, plus the frame (nothing else changed).
Used by C01, C07, C16, C17, C18 and the crash checks."""
import os

from . import snap, spec


def parent(k):
    return k.rsplit('/', 1)[0] if '/' in k else ''


def base(k):
    return k.rsplit('/', 1)[-1]


def is_info(k):
    return k.endswith('.trashinfo') and base(parent(k)) == 'info'


def is_payload_root(k):
    return base(parent(k)) == 'files' and k != parent(k)


def trash_of(k):
    """trash dir of an info path or payload root"""
    return parent(parent(k))


def info_for_payload(k):
    return trash_of(k) + '/info/' + base(k) + '.trashinfo'


def payload_for_info(k):
    return trash_of(k) + '/files/' + base(k)[:-len('.trashinfo')]


def list_pairs(s):
    """all (trash dir, name) -> (has_info, has_payload) found in a snapshot"""
    out = {}
    for k, e in s.items():
        if is_info(k) and e[0] in 'fl':
            key = (trash_of(k), base(k)[:-len('.trashinfo')])
            out.setdefault(key, [False, False])[0] = True
        elif is_payload_root(k):
            key = (trash_of(k), base(k))
            out.setdefault(key, [False, False])[1] = True
    return out


class PutAnalysis(object):
    def __init__(self):
        self.outcomes = []      # per arg: dict(state=..., trash=..., name=...)
        self.frame = []         # list of (kind, path, before, after)
        self.new_pairs = []
        self.skeleton = []


def _under(k, root):
    return k == root or k.startswith(root + '/') or root == ''


import re as _re
_TRASH_DIR_NAME = _re.compile(r'^(\.?Trash(-\d+)?|\d+|.*[tT]rash.*|T|\.Trash-inside)$')


def _trash_internal(k, sig=None):
    """k is the info/ or files/ directory of a trash directory (not a user's
    directory that happens to be called 'files'): its sibling exists, or its
    parent is named like a trash directory"""
    b = base(k)
    if b not in ('info', 'files'):
        return False
    par = parent(k)
    if _TRASH_DIR_NAME.match(base(par) or ''):
        return True
    if sig is not None:
        sib = (par + '/' if par else '') + ('files' if b == 'info' else 'info')
        return sib in sig and sig[sib][0] == 'd'
    return True


def norm_sig(sig):
    """signature with the mtime of trash-internal directories (info/, files/)
    blanked: a .trashinfo created and withdrawn again legitimately bumps it"""
    out = {}
    for k, e in sig.items():
        if e[0] == 'd' and _trash_internal(k, sig):
            e = e[:6] + (None,)
        out[k] = e
    return out


def analyze(s0, s1, designated):
    """designated: list of rel paths (or None for args naming nothing) of the
    entries the arguments designate, judged in s0."""
    A = PutAnalysis()
    s0 = norm_sig(s0)
    s1 = norm_sig(s1)
    d = snap.diff(s0, s1)
    removed = set(k for k, x, y in d if y is None)
    added = set(k for k, x, y in d if x is None)
    modified = [(k, x, y) for k, x, y in d if x is not None and y is not None]
    new_payload_roots = sorted(k for k in added if is_payload_root(k))
    new_infos = sorted(k for k in added if is_info(k))
    explained = set()
    used_roots = set()
    for P in designated:
        if P is None:
            A.outcomes.append({'state': 'NOTHING'})
            continue
        sig0 = snap.subtree(s0, P)
        if not sig0:
            A.outcomes.append({'state': 'NOTHING'})
            continue
        gone = P not in s1
        matches = [q for q in new_payload_roots
                   if q not in used_roots and not _under(q, P) and
                   snap.subtree(s1, q) == sig0]
        # content-only matches (mode/mtime differences) help diagnosis
        o = {'P': P}
        if gone and len(matches) >= 1:
            # several identical candidates can only be told apart by name;
            # take the one whose info is new
            pick = None
            for q in matches:
                if info_for_payload(q) in added:
                    pick = q
                    break
            if pick is None:
                o.update(state='ORPHAN', payload=matches[0])
                used_roots.add(matches[0])
            else:
                used_roots.add(pick)
                o.update(state='TRASHED', payload=pick,
                         info=info_for_payload(pick), trash=trash_of(pick),
                         name=base(pick))
                explained.add(info_for_payload(pick))
                for k in added:
                    if _under(k, pick):
                        explained.add(k)
                for k in removed:
                    if _under(k, P):
                        explained.add(k)
                others = [q for q in matches if q != pick
                          and info_for_payload(q) in added]
                if others:
                    o['state'] = 'MULTI'
                    o['others'] = others
        elif gone:
            # look for a partial / altered copy
            near = [q for q in new_payload_roots if q not in used_roots
                    and _content_equal(snap.subtree(s1, q), sig0)]
            if near:
                sd = snap.sig_diff(sig0, snap.subtree(s1, near[0]))
                o.update(state='ALTERED', payload=near[0],
                         diff=snap.fmt_diff(sd, 6),
                         # (what a copy across devices does not carry: the
                         # times and the owner of a link recreated by
                         # os.symlink, the owner of a copied file or directory
                         # - copy2/copystat never chown.  One mechanism.)
                         only_symlink_mtime=all(
                             x is not None and y is not None and x[0] == y[0]
                             and x[1] == y[1] and x[4:6] == y[4:6]
                             and (x[0] == 'l' or x[6:] == y[6:])
                             for k, x, y in sd))
            else:
                o.update(state='LOST')
        else:
            cur = snap.subtree(s1, P)
            dd = [(k, x, y) for k, x, y in snap.diff(sig0, cur)]
            if matches:
                o.update(state='DUPLICATED', payload=matches[0])
            elif not dd:
                o.update(state='UNTOUCHED')
            else:
                o.update(state='CHANGED', diff=dd)
        A.outcomes.append(o)
    # ---- frame
    # CHANGED entries: decide below whether the changes are only skeletons
    leftover_added = sorted(k for k in added if k not in explained)
    leftover_removed = sorted(k for k in removed if k not in explained)
    addset = set(leftover_added)
    # skeleton: added directories that (recursively) contain only skeleton
    # dirs / explained paths and are not children of files/ or info/
    children = {}
    for k in added:
        children.setdefault(parent(k), []).append(k)
    skeleton = set()

    def is_skel(k):
        if k in skeleton:
            return True
        e = s1.get(k)
        if e is None or e[0] != 'd':
            return False
        if base(parent(k)) in ('files', 'info') and \
                (parent(k) in added or _looks_like_trash(parent(parent(k)), s1)):
            return False
        for c in children.get(k, []):
            if c in explained:
                continue
            if not is_skel(c):
                return False
        skeleton.add(k)
        return True

    for k in leftover_added:
        is_skel(k)
    A.skeleton = sorted(skeleton)
    for k in leftover_added:
        if k in skeleton:
            continue
        if is_info(k):
            A.frame.append(('stray-info', k, None, s1[k]))
        elif is_payload_root(k):
            kind = 'orphan-payload' if info_for_payload(k) not in s1 \
                else 'unattributed-pair'
            A.frame.append((kind, k, None, s1[k]))
        elif any(_under(k, r) for r in new_payload_roots):
            continue        # reported with its root
        else:
            A.frame.append(('added', k, None, s1[k]))
    for k in leftover_removed:
        A.frame.append(('removed', k, s0[k], None))
    for k, x, y in modified:
        A.frame.append(('modified', k, x, y))
    # an UNTOUCHED/CHANGED designated dir may legitimately have gained only
    # skeleton dirs: re-judge CHANGED
    for o in A.outcomes:
        if o.get('state') == 'CHANGED':
            real = [(k, x, y) for k, x, y in o['diff']
                    if not (x is None and
                            ((o['P'] + '/' + k if o['P'] else k) in skeleton
                             or (o['P'] + '/' + k if o['P'] else k) in explained))
                    and not (y is None and
                             (o['P'] + '/' + k if o['P'] else k) in explained)]
            real = [(k, x, y) for k, x, y in real
                    if not (x is not None and y is not None and x[0] == 'd'
                            and x[:6] == y[:6])]
            if not real:
                o['state'] = 'UNTOUCHED'
                o.pop('diff', None)
            else:
                o['diff'] = snap.fmt_diff(real, 8)
    A.new_pairs = [(trash_of(k), base(k)) for k in new_payload_roots]
    return A


def _looks_like_trash(t, s):
    return (t + '/info') in s or base(t) == 'Trash' or \
        base(t).startswith('.Trash')


def _content_equal(a, b):
    """same paths, types, sizes, digests/targets (mode & mtime ignored)"""
    if set(a) != set(b):
        return False
    for k in a:
        x, y = a[k], b[k]
        if (x[0], x[4], x[5]) != (y[0], y[4], y[5]):
            return False
    return True


def reported_failed(stderr_text, spelling):
    """does stderr carry a 'cannot trash <description> '<arg>'' diagnostic"""
    import re
    pat = r"cannot trash [a-z'. -]*? '" + re.escape(spelling) + r"'"
    return re.search(pat, stderr_text) is not None


def stderr_encode(s):
    """how a str reaches stderr (utf-8, backslashreplace)"""
    return s.encode('utf-8', 'backslashreplace').decode('utf-8', 'replace')
