"""E7 - check driver.

  ./check <Cxx> [--tier quick|thorough] [--seed N] [--replay file]
          [--jobs N] [--budget S] [--cases N]

Cases are a pure function of (property, seed, index); workers are plain
subprocesses, each writing a JSONL result file.  Verdict: exit 0 held /
exit 1 VIOLATION / exit 2 INCONCLUSIVE.
"""
import argparse
import hashlib
import importlib
import json
import os
import random
import subprocess
import sys
import time

HERE = os.path.dirname(os.path.abspath(__file__))
VERIF = os.path.dirname(HERE)
OUT = os.path.join(VERIF, 'out')
EVID = os.environ.get('VERIF_EVIDENCE_DIR') or os.path.join(VERIF, 'evidence')
KNOWN = os.path.join(VERIF, 'known_findings.json')


def load_prop(pid):
    return importlib.import_module('vf.props.' + pid.lower())


def case_rng(pid, seed, index):
    return random.Random('%s/%s/%s' % (pid, seed, index))


def canon(obj):
    return hashlib.sha256(
        json.dumps(obj, sort_keys=True, default=str).encode()).hexdigest()[:16]


def load_known():
    try:
        with open(KNOWN) as f:
            return json.load(f)
    except (OSError, ValueError):
        return {'findings': []}


def known_match(pid, mechanism, known):
    for f in known.get('findings', []):
        if f.get('property') == pid and f.get('status') == 'known' and \
                f.get('mechanism') == mechanism:
            return f
    return None


# ---------------------------------------------------------------- worker
def worker_main(argv):
    pid, tier, seed, shard, nshards, outpath, deadline, ncases = argv
    seed = int(seed)
    shard = int(shard)
    nshards = int(nshards)
    deadline = float(deadline)
    ncases = int(ncases)
    prop = load_prop(pid)
    from . import run
    run.prepare()
    if hasattr(prop, 'setup'):
        prop.setup(tier)
    done = 0
    with open(outpath, 'w') as out:
        i = shard
        while i < ncases:
            if time.time() > deadline:
                break
            rng = case_rng(pid, seed, i)
            t0 = time.time()
            del run.CONTRACT_FAILS[:]
            del run.FD_LEAKS[:]
            run.CONTRACT_COUNTS.clear()
            try:
                case = prop.gen_case(rng, i, tier)
                if case is None:
                    i += nshards
                    continue
                if isinstance(case, dict):
                    case.setdefault('index', i)
                res = prop.run_case(case)
            except Exception as e:
                import traceback
                res = {'verdict': 'inconclusive',
                       'why': 'harness exception: %s' % e,
                       'tb': traceback.format_exc()[-2000:],
                       'violations': [], 'nontrivial': False}
                case = locals().get('case')
            res['i'] = i
            res['t'] = round(time.time() - t0, 4)
            res.setdefault('violations', [])
            res.setdefault('obs', {})
            # contracts bound in every forked run (section 2, E2): counts go
            # to the evidence, failures are violations of this case
            for k, n in run.CONTRACT_COUNTS.items():
                res['obs']['contract_evals:' + k] = n
            have = set(v.get('mechanism') for v in res['violations'])
            for c in run.CONTRACT_FAILS:
                m = 'contract:' + c.get('contract', '?')
                if m not in have:
                    have.add(m)
                    res['violations'].append({'mechanism': m, 'detail': c})
                    if res.get('verdict') == 'ok':
                        res['verdict'] = 'violation'
            if run.FD_LEAKS and 'resource:descriptors-left-open' not in have:
                # the resource monitor: a command that ends with descriptors
                # still open on files of the sandbox leaks one per entry or
                # argument - at scale every later open fails with EMFILE
                res['violations'].append({
                    'mechanism': 'resource:descriptors-left-open',
                    'detail': {'runs': run.FD_LEAKS[:4]}})
                if res.get('verdict') == 'ok':
                    res['verdict'] = 'violation'
            res.setdefault('features', [])
            res.setdefault('nontrivial', False)
            if 'key' not in res:
                res['key'] = canon(case)
            keep_case = bool(res['violations']) or \
                res.get('verdict') == 'inconclusive' or done < 3
            if keep_case:
                res['case'] = case
            out.write(json.dumps(res, default=str) + '\n')
            out.flush()
            done += 1
            i += nshards
        out.write(json.dumps({'done': True, 'shard': shard,
                              'next': i, 'n': done}) + '\n')


# ---------------------------------------------------------------- driver
def run_check(pid, tier, seed, jobs, budget, ncases):
    prop = load_prop(pid)
    cfg = prop.config(tier)
    if ncases is None:
        ncases = cfg['cases']
    if budget is None:
        budget = cfg.get('budget_s', 60 if tier == 'quick' else 600)
    os.makedirs(os.path.join(OUT, 'work'), exist_ok=True)
    os.makedirs(os.path.join(OUT, 'replay'), exist_ok=True)
    os.makedirs(EVID, exist_ok=True)
    t0 = time.time()
    deadline = t0 + budget
    jobs = max(1, min(jobs, ncases))
    procs = []
    tag = '%s-%s-%d-%d' % (pid, tier, seed, os.getpid())
    env = dict(os.environ)
    env['PYTHONPATH'] = VERIF + os.pathsep + env.get('PYTHONPATH', '')
    env['PYTHONDONTWRITEBYTECODE'] = '1'
    env['PYTHONUTF8'] = '1'
    env.setdefault('PYTHONHASHSEED', '0')
    for sh in range(jobs):
        outp = os.path.join(OUT, 'work', '%s.%d.jsonl' % (tag, sh))
        p = subprocess.Popen(
            [sys.executable, '-m', 'vf.driver', '--worker', pid, tier,
             str(seed), str(sh), str(jobs), outp, str(deadline), str(ncases)],
            env=env, cwd=VERIF, stdout=subprocess.DEVNULL,
            stderr=subprocess.PIPE)
        procs.append((p, outp))
    results = []
    worker_fail = []
    complete = 0
    hard = budget + cfg.get('grace_s', 120)
    for p, outp in procs:
        try:
            _, err = p.communicate(timeout=max(5, t0 + hard - time.time()))
        except subprocess.TimeoutExpired:
            p.kill()
            _, err = p.communicate()
            worker_fail.append('worker timeout')
        if p.returncode != 0:
            worker_fail.append('worker exit %s: %s' % (
                p.returncode, (err or b'').decode('utf-8', 'replace')[-800:]))
        finished = False
        try:
            with open(outp) as f:
                for line in f:
                    try:
                        r = json.loads(line)
                    except ValueError:
                        continue
                    if r.get('done'):
                        finished = True
                        complete += r['n']
                    else:
                        results.append(r)
            os.unlink(outp)
        except OSError:
            pass
        if not finished and p.returncode == 0:
            worker_fail.append('worker wrote no completion record')
    results.sort(key=lambda r: r['i'])
    return finish(prop, pid, tier, seed, cfg, results, worker_fail, ncases,
                  time.time() - t0)


_UNSHARE = None


def unshare_available():
    global _UNSHARE
    if _UNSHARE is None:
        try:
            r = subprocess.run(['unshare', '-m', '--propagation', 'private',
                                'sh', '-c', 'mkdir -p /dev/shm/.vfprobe && '
                                'mount -t tmpfs tmpfs /dev/shm/.vfprobe'],
                               capture_output=True, timeout=10)
            _UNSHARE = r.returncode == 0
        except Exception:
            _UNSHARE = False
        try:
            os.rmdir('/dev/shm/.vfprobe')
        except OSError:
            pass
    return _UNSHARE


_SKIP_OBS = ('op_', 'contract_evals:', 'c_', 'crash_before_')


def comparable(obs):
    return dict((k, v) for k, v in (obs or {}).items()
                if k != 'events' and not k.startswith(_SKIP_OBS))


def real_mount_crosscheck(prop, pid, tier, seed, results, n, kind='real'):
    """replay n cases (kind='real') on real nested tmpfs mounts in a private
    mount namespace, or (kind='cold') with every command in a fresh
    interpreter, and compare the oracle's outcome with the normal run"""
    info = {'requested': n, 'available': unshare_available() if kind == 'real'
            else True, 'replayed': 0, 'agree': 0, 'disagreements': []}
    if not n or not info['available']:
        return info
    picks = [r for r in results if r.get('nontrivial') and
             r.get('verdict') in ('ok', 'violation') and
             r.get('replayable', True)]
    step = max(1, len(picks) // n)
    picks = picks[::step][:n]
    items = []
    for r in picks:
        case = prop.gen_case(case_rng(pid, seed, r['i']), r['i'], tier)
        if isinstance(case, dict):
            case.setdefault('index', r['i'])
        if case is not None:
            items.append({'i': r['i'], 'case': case})
    inp = os.path.join(OUT, 'work', '%s-%s-%d.in.json' % (kind, pid, os.getpid()))
    outp = inp.replace('.in.json', '.out.json')
    with open(inp, 'w') as f:
        json.dump(items, f, default=str)
    env = dict(os.environ)
    env['PYTHONPATH'] = VERIF + os.pathsep + env.get('PYTHONPATH', '')
    env['PYTHONDONTWRITEBYTECODE'] = '1'
    env['PYTHONUTF8'] = '1'
    env.setdefault('PYTHONHASHSEED', '0')
    try:
        cmdline = ['unshare', '-m', '--propagation', 'private',
                   sys.executable, '-m', 'vf.realrun', pid, inp, outp] \
            if kind == 'real' else \
            [sys.executable, '-m', 'vf.realrun', '--cold', pid, inp, outp]
        p = subprocess.run(cmdline, env=env, cwd=VERIF, capture_output=True,
                           timeout=900)
        real = json.load(open(outp))
    except Exception as e:
        info['error'] = repr(e)[:300]
        return info
    finally:
        for x in (inp, outp):
            try:
                os.unlink(x)
            except OSError:
                pass
    by_i = dict((r['i'], r) for r in results)
    for rr in real:
        v = by_i[rr['i']]
        info['replayed'] += 1
        vm = sorted(x.get('mechanism') for x in v.get('violations') or [])
        if rr['verdict'] == v.get('verdict') and rr['mechanisms'] == vm and \
                comparable(rr['obs']) == comparable(v.get('obs')):
            info['agree'] += 1
        else:
            a, b = comparable(v.get('obs')), comparable(rr['obs'])
            info['disagreements'].append({
                'index': rr['i'], 'virtual': [v.get('verdict'), vm],
                'real': [rr['verdict'], rr['mechanisms'], rr.get('why')],
                'obs_diff': dict((k, [a.get(k), b.get(k)])
                                 for k in set(a) | set(b) if a.get(k) != b.get(k))})
    return info


def finish(prop, pid, tier, seed, cfg, results, worker_fail, ncases, wall):
    known = load_known()
    obs = {}
    feats = {}
    keys = set()
    n_incon = 0
    incon_why = {}
    unlisted = []
    known_hits = {}
    samples = []
    for r in results:
        for k, v in (r.get('obs') or {}).items():
            if isinstance(v, (int, float)):
                obs[k] = obs.get(k, 0) + v
        for ft in r.get('features') or []:
            feats[ft] = feats.get(ft, 0) + 1
        if r.get('nontrivial'):
            keys.add(r['key'])
        if r.get('verdict') == 'inconclusive':
            n_incon += 1
            w = str(r.get('why'))[:120]
            incon_why[w] = incon_why.get(w, 0) + 1
        for v in r.get('violations') or []:
            kf = known_match(pid, v.get('mechanism'), known)
            if kf is not None:
                h = known_hits.setdefault(v['mechanism'],
                                          {'n': 0, 'what': kf.get('what'),
                                           'example': v.get('detail')})
                h['n'] += 1
            else:
                unlisted.append((r, v))
        if 'case' in r and len(samples) < 4 and not r.get('violations'):
            samples.append({'index': r['i'], 'case': r['case'],
                            'verdict': r.get('verdict', 'ok'),
                            'observed': r.get('sample_obs')})
    # replays for unlisted violations (first per mechanism, max 10)
    replays = []
    seen_mech = {}
    for r, v in unlisted:
        m = v.get('mechanism')
        seen_mech[m] = seen_mech.get(m, 0) + 1
        if seen_mech[m] > 1 or len(replays) >= 10:
            continue
        path = os.path.join(OUT, 'replay', '%s-s%d-i%d.json' % (pid, seed, r['i']))
        with open(path, 'w') as f:
            json.dump({'property': pid, 'seed': seed, 'tier': tier,
                       'index': r['i'], 'case': r.get('case'),
                       'violation': v}, f, indent=1, default=str)
        replays.append((path, v))
    floors = cfg.get('floors', {})
    floor_fail = []
    allobs = dict(obs)
    allobs['cases'] = len(results)
    allobs['distinct_nontrivial'] = len(keys)
    for k, mn in floors.items():
        if allobs.get(k, 0) < mn:
            floor_fail.append('%s=%s < %s' % (k, allobs.get(k, 0), mn))
    if not samples and results:
        r = results[0]
        samples.append({'index': r['i'], 'case': r.get('case'),
                        'verdict': r.get('verdict', 'ok')})
    cov = {
        'evaluations': len(results),
        'distinct_nontrivial': len(keys),
        'rule': cfg.get('rule', ''),
        'samples': samples,
        'exhaustive': bool(cfg.get('exhaustive', False)),
        'observed': dict(sorted(obs.items())),
        'feature_buckets': dict(sorted(feats.items())),
        'cases_planned': ncases,
        'inconclusive_cases': n_incon,
        'inconclusive_reasons': incon_why,
        'known_findings_hit': known_hits,
        'unlisted_violations': [
            {'mechanism': v.get('mechanism'), 'index': r['i']}
            for r, v in unlisted[:50]],
        'floors': floors,
        'floor_failures': floor_fail,
        'worker_failures': worker_fail,
    }
    if hasattr(prop, 'extra_evidence'):
        cov.update(prop.extra_evidence(results))
    rm = None
    if cfg.get('real_sample') and not os.environ.get('VERIF_NO_REAL_MOUNTS'):
        rm = real_mount_crosscheck(prop, pid, tier, seed, results,
                                   cfg['real_sample'])
        cov['real_mount_crosscheck'] = rm
    cm = None
    if cfg.get('cold_sample') and not os.environ.get('VERIF_NO_COLD'):
        cm = real_mount_crosscheck(prop, pid, tier, seed, results,
                                   cfg['cold_sample'], kind='cold')
        cov['fresh_interpreter_crosscheck'] = cm
    # a violation seen on REAL mounts (the kernel's own semantics) or in a
    # fresh interpreter is a violation, not a fidelity question, when the
    # normal run of the same case was clean: the replay saw more, not less
    by_i = dict((r['i'], r) for r in results)
    for kind, info in (('real-mounts', rm), ('fresh-interpreter', cm)):
        for dg in list((info or {}).get('disagreements') or []):
            if dg['real'][0] == 'violation' and dg['virtual'][0] != 'violation':
                mechs = [m for m in dg['real'][1]
                         if known_match(pid, m, known) is None]
                if not mechs:
                    continue
                r = by_i.get(dg['index'])
                v = {'mechanism': '%s:%s' % (kind, mechs[0]),
                     'detail': dict(dg, note='seen only in the %s replay of this '
                                    'case (python -m vf.realrun)' % kind)}
                unlisted.append((r, v))
                info['disagreements'].remove(dg)
                path = os.path.join(OUT, 'replay', '%s-s%d-i%d.json' % (pid, seed, r['i']))
                rcase = r.get('case')
                if rcase is None:
                    rcase = prop.gen_case(case_rng(pid, seed, r['i']), r['i'], tier)
                    if isinstance(rcase, dict):
                        rcase.setdefault('index', r['i'])
                with open(path, 'w') as f:
                    json.dump({'property': pid, 'seed': seed, 'tier': tier,
                               'index': r['i'], 'case': rcase,
                               'violation': v, 'replay_mode': kind}, f,
                              indent=1, default=str)
                if len(replays) < 10:
                    replays.append((path, v))
                seen_mech[v['mechanism']] = seen_mech.get(v['mechanism'], 0) + 1
    ev = {
        'property_id': pid, 'tier': tier, 'seed': seed,
        'level': cfg.get('level', 'exploration'),
        'coverage': cov,
        'assumptions': cfg.get('assumptions', []),
        'wall_s': round(wall, 2),
        'violations': len(unlisted),
    }
    with open(os.path.join(EVID, pid + '.json'), 'w') as f:
        json.dump(ev, f, indent=1, default=str, sort_keys=True)
        f.write('\n')
    print('%s tier=%s seed=%d cases=%d/%d distinct_nontrivial=%d '
          'inconclusive=%d wall=%.1fs' % (pid, tier, seed, len(results),
                                          ncases, len(keys), n_incon, wall))
    if rm:
        print('  real-mount cross-check: available=%s replayed=%d agree=%d' % (
            rm['available'], rm['replayed'], rm['agree']))
    if cm:
        print('  fresh-interpreter cross-check: replayed=%d agree=%d' % (
            cm['replayed'], cm['agree']))
    top = sorted(obs.items(), key=lambda kv: -kv[1])[:14]
    print('  observed: ' + ', '.join('%s=%d' % kv for kv in top))
    for m, h in sorted(known_hits.items()):
        print('KNOWN-FINDING: property=%s %s (mechanism=%s, hit %d times)'
              % (pid, h['what'], m, h['n']))
    if unlisted:
        for path, v in replays:
            print('VIOLATION property=%s replay=%s' % (pid, path))
            print('  mechanism=%s' % v.get('mechanism'))
            d = v.get('detail')
            print('  detail=%s' % (json.dumps(d, default=str)[:1500]))
        print('  (%d unlisted violations in %d mechanisms)' % (
            len(unlisted), len(seen_mech)))
        return 1
    reasons = []
    if worker_fail:
        reasons.append('workers: ' + '; '.join(worker_fail)[:300])
    if floor_fail:
        reasons.append('floors not reached: ' + ', '.join(floor_fail))
    maxinc = cfg.get('max_inconclusive_frac', 0.02)
    if results and n_incon > maxinc * len(results) + 1:
        reasons.append('%d inconclusive cases: %s' % (
            n_incon, json.dumps(incon_why)[:300]))
    if not results:
        reasons.append('no case ran')
    if cm and cm.get('disagreements'):
        reasons.append('fork mode and a fresh interpreter disagree on %d of %d '
                       'replayed cases (harness fidelity): %s' % (
                           len(cm['disagreements']), cm['replayed'],
                           json.dumps(cm['disagreements'][:2], default=str)[:600]))
    if rm and rm.get('disagreements'):
        reasons.append('virtual and real mounts disagree on %d of %d replayed '
                       'cases (shim fidelity): %s' % (
                           len(rm['disagreements']), rm['replayed'],
                           json.dumps(rm['disagreements'][:2], default=str)[:600]))
    if reasons:
        print('INCONCLUSIVE property=%s reason=%s' % (pid, ' | '.join(reasons)))
        return 2
    print('HELD property=%s on %d executions (%d distinct non-trivial)' % (
        pid, len(results), len(keys)))
    return 0


def replay(pid, path):
    prop = load_prop(pid)
    from . import run
    run.prepare()
    with open(path) as f:
        rep = json.load(f)
    case = rep['case']
    if hasattr(prop, 'setup'):
        prop.setup(rep.get('tier', 'quick'))
    if case is None and rep.get('index') is not None:
        case = prop.gen_case(case_rng(pid, rep.get('seed', 0), rep['index']),
                             rep['index'], rep.get('tier', 'quick'))
        if isinstance(case, dict):
            case.setdefault('index', rep['index'])
    mode = rep.get('replay_mode')
    if mode in ('real-mounts', 'fresh-interpreter'):
        # the violation was seen in that kind of replay only: replay it there
        inp = os.path.join(OUT, 'work', 'replay-%s-%d.in.json' % (pid, os.getpid()))
        outp = inp.replace('.in.json', '.out.json')
        os.makedirs(os.path.dirname(inp), exist_ok=True)
        with open(inp, 'w') as f:
            json.dump([{'i': rep.get('index', 0), 'case': case}], f, default=str)
        env = dict(os.environ)
        env['PYTHONPATH'] = VERIF + os.pathsep + env.get('PYTHONPATH', '')
        env['PYTHONDONTWRITEBYTECODE'] = '1'
        env['PYTHONUTF8'] = '1'
        env.setdefault('PYTHONHASHSEED', '0')
        cmdline = (['unshare', '-m', '--propagation', 'private', sys.executable,
                    '-m', 'vf.realrun'] if mode == 'real-mounts' else
                   [sys.executable, '-m', 'vf.realrun', '--cold']) + [pid, inp, outp]
        try:
            subprocess.run(cmdline, env=env, cwd=VERIF, capture_output=True,
                           timeout=900)
            rr = json.load(open(outp))[0]
        except Exception as e:
            print('INCONCLUSIVE property=%s reason=%s replay failed: %r' % (pid, mode, e))
            return 2
        finally:
            for x in (inp, outp):
                try:
                    os.unlink(x)
                except OSError:
                    pass
        res = {'verdict': rr.get('verdict'), 'why': rr.get('why'),
               'violations': [{'mechanism': '%s:%s' % (mode, m), 'detail': {}}
                              for m in rr.get('mechanisms') or []]}
    else:
        res = prop.run_case(case)
    known = load_known()
    bad = 0
    for v in res.get('violations') or []:
        kf = known_match(pid, v.get('mechanism'), known) or known_match(
            pid, (v.get('mechanism') or '').split(':', 1)[-1]
            if mode in ('real-mounts', 'fresh-interpreter') else None, known)
        if kf:
            print('KNOWN-FINDING: property=%s %s' % (pid, kf.get('what')))
        else:
            bad += 1
            print('VIOLATION property=%s replay=%s' % (pid, path))
            print('  mechanism=%s' % v.get('mechanism'))
            print('  detail=%s' % json.dumps(v.get('detail'), default=str,
                                             indent=1)[:6000])
    if res.get('verdict') == 'inconclusive':
        print('INCONCLUSIVE property=%s reason=%s' % (pid, res.get('why')))
        return 2
    if not bad:
        print('replay: no unlisted violation reproduced')
    return 1 if bad else 0


def main(argv=None):
    argv = sys.argv[1:] if argv is None else argv
    if argv and argv[0] == '--worker':
        worker_main(argv[1:])
        return 0
    ap = argparse.ArgumentParser(prog='check')
    ap.add_argument('property')
    ap.add_argument('--tier', default=os.environ.get('VERIF_TIER', 'quick'),
                    choices=['quick', 'thorough'])
    ap.add_argument('--seed', type=int,
                    default=int(os.environ.get('VERIF_SEED', '0')))
    ap.add_argument('--jobs', type=int,
                    default=int(os.environ.get('VERIF_JOBS', '0')) or
                    (os.cpu_count() or 4))
    ap.add_argument('--budget', type=float,
                    default=float(os.environ['VERIF_BUDGET_S'])
                    if os.environ.get('VERIF_BUDGET_S') else None)
    ap.add_argument('--cases', type=int, default=None)
    ap.add_argument('--replay')
    a = ap.parse_args(argv)
    pid = a.property.upper()
    if a.replay:
        return replay(pid, a.replay)
    return run_check(pid, a.tier, a.seed, a.jobs, a.budget, a.cases)


if __name__ == '__main__':
    sys.exit(main())
