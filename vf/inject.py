"""Helpers for the injection checks: crash-point enumeration, fault plans,
event normalisation."""
import os
import signal
import time

from . import run, world


def norm_events(events, R):
    """what must be equal between the reference run and a crash/fault re-run
    up to the injection point: operation, class and number of paths (path
    names may contain generated components: temp names, pids)"""
    out = []
    for e in events:
        out.append((e['op'], e['c'], len(e['p'])))
    return out


def mut_positions(events):
    """k of every mutating event (a crash_before=k point)"""
    return [e['k'] for e in events if e['c'] == 'M']


def fallible_positions(events):
    return [(e['k'], e['op'], e['c'], e['p']) for e in events]


class Scenario(object):
    """one command line in one world descriptor, re-runnable in fresh worlds"""

    def __init__(self, desc, cmd, args, stdin=b'', env=None, plan=None, cwd=None,
                 pre=None):
        self.desc = desc
        self.cmd = cmd
        self.args = args            # may contain '@/...' placeholders
        self.stdin = stdin
        self.env = env
        self.plan = dict(plan or {})
        self.cwd = cwd
        self.pre = pre              # callable(world) run before the command

    def execute(self, extra_plan=None, keep=False):
        """returns (world, result, s0, s1); caller destroys the world"""
        w = world.World(self.desc)
        try:
            if self.pre:
                self.pre(w)
            s0 = w.snapshot()
            plan = dict(self.plan)
            if extra_plan:
                plan.update(extra_plan)
            args = [world.subst(a, w.R) for a in self.args]
            r = run.run(w, self.cmd, args, stdin=self.stdin, env=self.env,
                        plan=plan, cwd=w.abs(self.cwd) if self.cwd else None)
            s1 = w.snapshot()
            return w, r, s0, s1
        except BaseException:
            w.destroy()
            raise


def sigkill_run(sc, delay_us, kill_after_s, rng):
    """run the scenario with a sleep before every mutating event and SIGKILL
    the child kill_after_s seconds after its first mutating event"""
    w = world.World(sc.desc)
    try:
        if sc.pre:
            sc.pre(w)
        s0 = w.snapshot()
        rfd, wfd = os.pipe()
        os.set_inheritable(wfd, True)
        plan = dict(sc.plan)
        plan.update({'delay_us': delay_us, 'announce_fd': wfd})
        args = [world.subst(a, w.R) for a in sc.args]
        pid, st = run.run_cmd(w, sc.cmd, args, stdin=sc.stdin, env=sc.env,
                              plan=plan, cwd=w.abs(sc.cwd) if sc.cwd else None)
        os.close(wfd)
        # wait for the first mutating event
        import select
        rl, _, _ = select.select([rfd], [], [], 10.0)
        killed = False
        if rl:
            os.read(rfd, 64)
            time.sleep(kill_after_s)
            try:
                os.kill(pid, signal.SIGKILL)
                killed = True
            except OSError:
                pass
        res = run.finish_cmd(pid, st)
        os.close(rfd)
        s1 = w.snapshot()
        return w, res, s0, s1, killed
    except BaseException:
        w.destroy()
        raise
