"""E2 - the probe / shim layer, installed inside the process that runs a
trash-cli command (after fork, or from sitecustomize in cold mode).

* event trace of every os.* / open call touching the sandbox
* virtual mount table (ismount, EXDEV/EBUSY on rename/link/rmdir, psutil)
* injection: crash_before, one-shot and persistent faults, scheduler yields,
  listdir permutation, step budget, put clock, delays
* write fence: nothing outside the sandbox root is ever mutated

No repository source is edited; everything is a module-attribute wrapper.
Wrappers never call wrapped functions: a re-entrancy guard turns every
nested call into a plain pass-through, so the event count equals the number
of calls made by the code under test.
"""
import builtins
import errno
import io
import json
import os
import posixpath
import sys
import time

_O = {}          # saved originals
_WFLAGS = os.O_WRONLY | os.O_RDWR | os.O_CREAT | os.O_TRUNC | os.O_APPEND

# name -> (class, kind)   class: M mutating, R read
#   kind: 'p' one path first arg, 'pp' two paths, 'sl' symlink(target, path),
#         'fd' first arg is an fd, 'open' os.open, 'sf' sendfile(out,in,..)
OS_FUNCS = {
    'open': ('?', 'open'),
    'write': ('M', 'fd'),
    'close': ('M', 'fd'),
    'ftruncate': ('M', 'fd'),
    'fchmod': ('M', 'fd'),
    'sendfile': ('M', 'sf'),
    'copy_file_range': ('M', 'sf2'),
    'rename': ('M', 'pp'),
    'replace': ('M', 'pp'),
    'link': ('M', 'pp'),
    'symlink': ('M', 'sl'),
    'mkdir': ('M', 'p'),
    'rmdir': ('M', 'p'),
    'unlink': ('M', 'p'),
    'remove': ('M', 'p'),
    'chmod': ('M', 'p'),
    'lchmod': ('M', 'p'),
    'chown': ('M', 'p'),
    'lchown': ('M', 'p'),
    'utime': ('M', 'p'),
    'truncate': ('M', 'p'),
    'mkfifo': ('M', 'p'),
    'mknod': ('M', 'p'),
    'setxattr': ('M', 'p'),
    'removexattr': ('M', 'p'),
    'stat': ('R', 'p'),
    'lstat': ('R', 'p'),
    'listdir': ('R', 'p'),
    'scandir': ('R', 'p'),
    'readlink': ('R', 'p'),
    'access': ('R', 'p'),
}

AUDIT_MAP = {
    'os.rename': 'rename', 'os.mkdir': 'mkdir', 'os.remove': 'remove',
    'os.rmdir': 'rmdir', 'os.symlink': 'symlink', 'os.link': 'link',
    'os.chmod': 'chmod', 'os.utime': 'utime', 'os.truncate': 'truncate',
    'os.chown': 'chown', 'os.setxattr': 'setxattr',
    'os.removexattr': 'removexattr', 'os.mkfifo': 'mkfifo',
    'os.mknod': 'mknod',
}
WRAP_AUDIT = {
    'rename': 'rename', 'replace': 'rename', 'mkdir': 'mkdir',
    'unlink': 'remove', 'remove': 'remove', 'rmdir': 'rmdir',
    'symlink': 'symlink', 'link': 'link', 'chmod': 'chmod',
    'lchmod': 'chmod', 'utime': 'utime', 'truncate': 'truncate',
    'ftruncate': 'truncate', 'fchmod': 'chmod', 'chown': 'chown',
    'lchown': 'chown', 'setxattr': 'setxattr',
    'removexattr': 'removexattr', 'mkfifo': 'mkfifo', 'mknod': 'mknod',
}

EXIT_CRASH = 99
EXIT_BUDGET = 98


def _oserror(err, path=None, path2=None):
    msg = os.strerror(err)
    if path2 is not None:
        return OSError(err, msg, path, None, path2)
    if path is not None:
        return OSError(err, msg, path)
    return OSError(err, msg)


class Shim(object):
    def __init__(self, root, mounts, uid, plan, logfd):
        # root: absolute real path of the sandbox (a mount point itself)
        self.root = root
        self.fence_root = plan.get('fence_root', root)
        self.mounts = set(mounts)          # absolute real paths
        self.uid = uid
        self.plan = plan
        self.logfd = logfd
        self.k = 0
        self.inside = False
        self.fds = {}                      # fd -> (path, writable)
        self.crash_before = plan.get('crash_before')
        # an adversary in another process: right before operation k a directory
        # is moved aside and a symbolic link (to somewhere else) takes its name
        self.swap_before = plan.get('swap_before')
        # a catchable interrupt (SIGINT as Python sees it: KeyboardInterrupt
        # raised when the interrupted system call returns / before the next)
        self.interrupt_after = plan.get('interrupt_after')
        self.interrupt_before = plan.get('interrupt_before')
        self.faults = dict((int(k), v) for k, v in
                           (plan.get('faults') or {}).items())
        self.pfaults = plan.get('pfaults') or []
        self.step_budget = plan.get('step_budget')
        self.listdir_rng = None
        # directories (on different virtual volumes) whose inode NUMBERS
        # coincide, as happens on freshly made file systems
        self.same_ino = set(plan.get('same_ino') or ())
        # opt-in: st_dev of everything under a virtual mount differs from the
        # root's (code that compares device numbers sees several devices)
        self.vdev = bool(plan.get('vdev'))
        self.devfds = set()
        if plan.get('listdir_seed') is not None:
            import random
            self.listdir_rng = random.Random(plan['listdir_seed'])
        self.sched = plan.get('sched')     # {'fd': n, 'prefix': path}
        self.delay_us = plan.get('delay_us') or 0
        self.announce_fd = plan.get('announce_fd')
        self.real_mounts = bool(plan.get('real_mounts'))
        self.audit = {}
        self.wrapped = {}
        self.trace_reads = plan.get('trace_reads', True)
        try:
            self.cwd0 = os.getcwd()
        except OSError:
            self.cwd0 = root

    # ------------------------------------------------------------- logging
    def _log(self, data):
        try:
            _O['write'](self.logfd, data)
        except OSError:
            pass

    def log_json(self, tag, obj):
        self._log((tag + ' ' + json.dumps(obj) + '\n').encode('ascii'))

    # ------------------------------------------------------ path utilities
    def _abs(self, p, dir_fd=None):
        """the directory entry a path argument names:
        realpath(dirname)/basename, '..' resolved the way the kernel does"""
        if isinstance(p, int):
            ent = self.fds.get(p)
            return ent[0] if ent else None
        p = os.fspath(p)
        if isinstance(p, bytes):
            p = os.fsdecode(p)
        if not p.startswith('/'):
            if dir_fd is not None:
                ent = self.fds.get(dir_fd)
                if ent:
                    base = ent[0]
                else:
                    try:
                        base = _O['readlink']('/proc/self/fd/%d' % dir_fd)
                    except OSError:
                        base = '/?'
            else:
                try:
                    base = os.getcwd()
                except OSError:          # cwd deleted under our feet
                    base = self.cwd0
            p = base + '/' + p
        return self._real_parent(p)

    def _real_parent(self, p):
        """realpath(dirname(p))/basename(p)  -  the directory entry named."""
        p = p.rstrip('/') or '/'
        head, tail = posixpath.split(p)
        try:
            rp = posixpath.realpath(head)
        except OSError:
            rp = head
        if tail in ('', '.'):
            return rp
        if tail == '..':
            return posixpath.dirname(rp)
        return (rp.rstrip('/') + '/' + tail) if rp != '/' else '/' + tail

    def _under(self, p, root):
        return p == root or p.startswith(root + '/')

    def volume_of(self, realp):
        p = realp
        while True:
            if p in self.mounts:
                return p
            q = posixpath.dirname(p)
            if q == p:
                return p
            p = q

    # -------------------------------------------------------------- ismount
    def ismount(self, path):
        if self.inside:
            return _O['ismount'](path)
        self.inside = True
        try:
            p = os.fspath(path)
            if isinstance(p, bytes):
                p = os.fsdecode(p)
            ap = posixpath.abspath(p)
            try:
                rp = posixpath.realpath(ap)
            except OSError:
                rp = ap
            if not self._under(rp, self.root):
                return _O['ismount'](path)
            if posixpath.islink(ap):
                return False
            return rp in self.mounts
        finally:
            self.inside = False

    # --------------------------------------------------------------- events
    def _paths_of(self, name, kind, a, kw):
        try:
            if kind in ('p', 'open'):
                p = a[0] if a else kw.get('path', kw.get('src'))
                return [self._abs(p, kw.get('dir_fd'))]
            if kind == 'pp':
                s = a[0] if a else kw.get('src')
                d = a[1] if len(a) > 1 else kw.get('dst')
                return [self._abs(s, kw.get('src_dir_fd')),
                        self._abs(d, kw.get('dst_dir_fd'))]
            if kind == 'sl':
                d = a[1] if len(a) > 1 else kw.get('dst')
                return [self._abs(d, kw.get('dir_fd'))]
            if kind == 'fd':
                ent = self.fds.get(a[0] if a else kw.get('fd'))
                return [ent[0]] if ent else [None]
            if kind in ('sf', 'sf2'):
                o = self.fds.get(a[0]) if kind == 'sf' else self.fds.get(a[1])
                return [o[0]] if o else [None]
        except Exception:
            pass
        return [None]

    def call(self, name, orig, cls, kind, a, kw):
        if self.inside:
            return orig(*a, **kw)
        self.inside = True
        try:
            paths = self._paths_of(name, kind, a, kw)
            if kind == 'open':
                flags = a[1] if len(a) > 1 else kw.get('flags', 0)
                cls = 'M' if flags & _WFLAGS else 'R'
            elif kind == 'fd' and name in ('write', 'close'):
                ent = self.fds.get(a[0] if a else None)
                if ent is None:
                    return orig(*a, **kw)        # stdout, pipes, dir fds ...
                if name == 'close' and not ent[1]:
                    self.fds.pop(a[0], None)
                    return orig(*a, **kw)
            inroot = [p for p in paths if p and self._under(p, self.root)]
            if cls == 'R' and (not inroot or not self.trace_reads):
                return self._post(name, orig(*a, **kw), a, kw, paths, cls)
            if cls == 'M' and not inroot and paths == [None]:
                return orig(*a, **kw)
            return self._event(name, orig, cls, kind, a, kw, paths)
        finally:
            self.inside = False

    def _event(self, name, orig, cls, kind, a, kw, paths):
        self.k += 1
        k = self.k
        if self.step_budget is not None and k > self.step_budget:
            self.log_json('X', {'k': k, 'why': 'budget'})
            os._exit(EXIT_BUDGET)
        if self.crash_before == k:
            self.log_json('X', {'k': k, 'why': 'crash', 'op': name,
                                'p': paths})
            os._exit(EXIT_CRASH)
        sw = self.swap_before
        if sw and sw.get('k') == k:
            self.swap_before = None
            try:
                _O['rename'](sw['victim'], sw['aside'])
                _O['symlink'](sw['to'], sw['victim'])
                self.log_json('W', {'k': k, 'swapped': sw['victim']})
            except OSError as e_:
                self.log_json('W', {'k': k, 'swap_failed': e_.errno})
        if self.interrupt_before == k:
            self.interrupt_before = None
            self.log_json('X', {'k': k, 'why': 'interrupt-before', 'op': name,
                                'p': paths})
            raise KeyboardInterrupt()
        if self.sched is not None:
            self._yield(name, cls, paths)
        if self.delay_us and cls == 'M':
            time.sleep(self.delay_us / 1e6)
        rec = {'k': k, 'op': name, 'c': cls, 'p': paths}
        # operations that FOLLOW a final symlink act on its target: log it
        if cls == 'M' and name in ('chmod', 'chown', 'utime', 'truncate',
                                   'setxattr', 'open', 'bopen') and paths \
                and paths[0] and kw.get('follow_symlinks', True) and \
                not (name == 'open' and ((a[1] if len(a) > 1 else
                                          kw.get('flags', 0)) & os.O_NOFOLLOW)):
            try:
                if posixpath.islink(paths[0]):
                    rec['follows'] = posixpath.realpath(paths[0])
            except OSError:
                pass
        if kind == 'open':
            rec['fl'] = a[1] if len(a) > 1 else kw.get('flags', 0)
        elif kind == 'bopen':
            rec['md'] = a[1] if len(a) > 1 else kw.get('mode', 'r')
        elif kind == 'sl':
            rec['to'] = os.fsdecode(os.fspath(a[0])) if a else None
        self.log_json('B', rec)
        if self.announce_fd is not None and cls == 'M':
            try:
                _O['write'](self.announce_fd, b'%d\n' % k)
            except OSError:
                pass
        # ---- write fence
        if cls == 'M':
            for p in paths:
                if p is None:
                    continue
                tgt = self._real_parent(p)
                if not self._under(tgt, self.fence_root):
                    self.log_json('A', {'k': k, 'r': 'escape', 'tgt': tgt})
                    raise _oserror(errno.EPERM, paths[0])
        # ---- injected faults
        err = self.faults.get(k)
        if err is None:
            err = self._pfault(name, cls, kind, paths, a, kw)
        if err is not None:
            self.log_json('A', {'k': k, 'r': 'F', 'e': err})
            self._int_skip(k, name)
            if len(paths) > 1:
                raise _oserror(err, a[0] if a else paths[0],
                               a[1] if len(a) > 1 else paths[1])
            if kind in ('fd', 'sf', 'sf2'):
                raise _oserror(err)
            raise _oserror(err, a[0] if a and kind != 'sl' else
                           (a[1] if len(a) > 1 else paths[0]))
        # ---- virtual mount semantics
        if not self.real_mounts:
            verr = self._vmount_error(name, kind, paths)
            if verr is not None:
                self.log_json('A', {'k': k, 'r': 'V', 'e': verr})
                self._int_skip(k, name)
                if len(paths) > 1:
                    raise _oserror(verr, a[0], a[1])
                raise _oserror(verr, a[0])
        # ---- the real thing
        au = WRAP_AUDIT.get(name)
        if au:
            self.wrapped[au] = self.wrapped.get(au, 0) + 1
        elif kind in ('open', 'bopen') and cls == 'M':
            self.wrapped['open'] = self.wrapped.get('open', 0) + 1
        try:
            r = orig(*a, **kw)
        except OSError as e:
            self.log_json('A', {'k': k, 'r': 'E', 'e': e.errno})
            self._int_skip(k, name)
            raise
        except BaseException as e:
            self.log_json('A', {'k': k, 'r': 'EX', 'e': type(e).__name__})
            raise
        if self.plan.get('timestamps') and cls == 'M':
            self.log_json('A', {'k': k, 'r': 'ok', 't': time.time()})
        else:
            self.log_json('A', {'k': k, 'r': 'ok'})
        r = self._post(name, r, a, kw, paths, cls)
        if self.interrupt_after == k:
            self.interrupt_after = None
            self.log_json('X', {'k': k, 'why': 'interrupt-after', 'op': name,
                                'p': paths})
            raise KeyboardInterrupt()
        return r

    def _int_skip(self, k, name):
        if self.interrupt_after == k:
            # the call itself failed: the OSError is what Python raises
            self.interrupt_after = None
            self.log_json('X', {'k': k, 'why': 'interrupt-skipped', 'op': name})

    def _post(self, name, r, a, kw, paths, cls):
        if name == 'open' and isinstance(r, int):
            self.fds[r] = (paths[0], cls == 'M')
            if self.vdev and kw.get('dir_fd') is None:
                self.devfds.add(r)
        elif name == 'bopen':
            try:
                self.fds[r.fileno()] = (paths[0], cls == 'M')
            except Exception:
                pass
        elif name == 'close':
            self.fds.pop(a[0] if a else None, None)
            self.devfds.discard(a[0] if a else None)
        elif name in ('stat', 'lstat') and self.vdev and paths and paths[0] \
                and kw.get('dir_fd') is None and \
                not isinstance(a[0] if a else kw.get('path'), int):
            follow = name == 'stat' and kw.get('follow_symlinks', True)
            r = self._fake_dev(r, paths[0], follow)
        elif name in ('stat', 'lstat') and self.same_ino and paths and \
                paths[0] in self.same_ino:
            try:
                c_, (t_, d_) = r.__reduce__()
                t_ = list(t_)
                t_[1] = 987654321
                d_ = dict(d_)
                r = c_(tuple(t_), d_)
            except Exception:
                pass
        elif name == 'listdir' and self.listdir_rng is not None \
                and paths and paths[0] and self._under(paths[0], self.root):
            r = list(r)
            self.listdir_rng.shuffle(r)
        return r

    def _fake_dev(self, r, path, follow):
        try:
            was = self.inside
            self.inside = True
            try:
                rp = posixpath.realpath(path) if follow else self._real_parent(path)
            finally:
                self.inside = was
            if not self._under(rp, self.root):
                return r
            vol = self.volume_of(rp)
            if vol == self.root or vol not in self.mounts:
                return r
            c_, (t_, d_) = r.__reduce__()
            t_ = list(t_)
            t_[2] = t_[2] + 7000 + sorted(self.mounts).index(vol)
            return c_(tuple(t_), dict(d_))
        except Exception:
            return r

    def fstat(self, fd, *a, **kw):
        r = _O['fstat'](fd, *a, **kw)
        if fd in self.devfds and fd in self.fds and self.fds[fd][0]:
            r = self._fake_dev(r, self.fds[fd][0], True)
        return r

    def _pfault(self, name, cls, kind, paths, a, kw):
        for pf in self.pfaults:
            ops = pf.get('ops')
            if ops and name not in ops:
                continue
            if pf.get('cls') and pf['cls'] != cls:
                continue
            pre = pf.get('prefix')
            if pre is not None:
                pp = [p for p in paths if p]
                if pf.get('which') == 'dst':
                    pp = pp[-1:]
                elif pf.get('which') == 'src':
                    pp = pp[:1]
                if not any(self._under(p, pre) for p in pp):
                    continue
            suf = pf.get('suffix')
            if suf is not None and not any(p and p.endswith(suf)
                                           for p in paths):
                continue
            rx = pf.get('re')
            if rx is not None:
                import re as _re
                if not any(p and _re.search(rx, p) for p in paths):
                    continue
            if pf.get('excl') and kind == 'open':
                fl = a[1] if len(a) > 1 else kw.get('flags', 0)
                if not fl & os.O_EXCL:
                    continue
            if 'skip' in pf and pf['skip'] > 0:
                pf['skip'] -= 1
                continue
            if 'count' in pf:
                if pf['count'] <= 0:
                    continue
                pf['count'] -= 1
            return pf['errno']
        return None

    def _vmount_error(self, name, kind, paths):
        if name in ('rename', 'replace', 'link') and len(paths) == 2 \
                and paths[0] and paths[1]:
            s = self._real_parent(paths[0])
            d = self._real_parent(paths[1])
            if not (self._under(s, self.root) and self._under(d, self.root)):
                return None
            if not posixpath.lexists(s):
                return None                      # let the kernel say ENOENT
            # the kernel's order: the two PARENT directories on different
            # mounts -> EXDEV; only then a mount point as source/target -> EBUSY
            sv = self.volume_of(posixpath.dirname(s))
            dv = self.volume_of(posixpath.dirname(d))
            if sv != dv:
                return errno.EXDEV
            if s in self.mounts and not posixpath.islink(s):
                return errno.EBUSY
            if d in self.mounts and posixpath.lexists(d) and \
                    not posixpath.islink(d):
                return errno.EBUSY
        elif name == 'rmdir' and paths and paths[0]:
            t = self._real_parent(paths[0])
            if t in self.mounts and not posixpath.islink(t) and \
                    self._under(t, self.root):
                return errno.EBUSY
        return None

    # ------------------------------------------------------------ scheduler
    def _yield(self, name, cls, paths):
        sc = self.sched
        pre = sc['prefix']
        if not any(p and self._under(p, pre) for p in paths):
            return
        if cls != 'M' and name not in ('stat', 'lstat', 'listdir', 'scandir'):
            return
        fd = sc['fd']
        rel = [(p[len(pre):] if p and self._under(p, pre) else '-')
               for p in paths]
        msg = ('%s %s\n' % (name, json.dumps(rel))).encode('ascii')
        _O['write'](fd, msg)
        b = _O['read'](fd, 1)
        if not b:
            os._exit(97)

    # ---------------------------------------------------------------- audit
    def audit_hook(self, event, args):
        if event != 'open' and event not in AUDIT_MAP:
            return
        try:
            if event == 'open':
                path, mode, flags = args
                if isinstance(path, int) or path is None:
                    return
                if not (flags & _WFLAGS):
                    return
                p = os.fsdecode(path) if isinstance(path, bytes) else path
                if not p.startswith('/'):
                    p = os.getcwd() + '/' + p
                if self.logpath and p == self.logpath:
                    return
                self.audit['open'] = self.audit.get('open', 0) + 1
            elif event in AUDIT_MAP:
                n = AUDIT_MAP[event]
                self.audit[n] = self.audit.get(n, 0) + 1
        except Exception:
            pass

    logpath = None

    def open_fds(self):
        """descriptors open in this process that refer to something inside
        the sandbox (the resource monitor: whatever the command opened there
        must be closed again when it ends)"""
        out = []
        prev = self.inside
        self.inside = True
        try:
            for name in _O['listdir']('/proc/self/fd'):
                try:
                    tgt = _O['readlink']('/proc/self/fd/' + name)
                except OSError:
                    continue
                if self._under(tgt, self.root) and int(name) != self.logfd:
                    out.append(tgt)
        except OSError:
            pass
        finally:
            self.inside = prev
        return out

    def finish(self):
        leaked = self.open_fds()
        self.log_json('S', {'audit': self.audit, 'wrapped': self.wrapped,
                            'events': self.k, 'open_fds': len(leaked),
                            'open_fd_sample': leaked[:4]})


# ------------------------------------------------------------------ install
_shim = None


def _mk_os_wrapper(shim, name, orig, cls, kind):
    def w(*a, **kw):
        return shim.call(name, orig, cls, kind, a, kw)
    w.__name__ = name
    w.__qualname__ = name
    w.__wrapped__ = orig
    return w


class _WProxy(object):
    """a file object opened for writing inside the sandbox: what is written
    is held back until flush()/close(), which is then ONE traced 'fwrite'
    operation - the point at which the kernel's verdict on buffered data
    (ENOSPC, EDQUOT, EFBIG, EIO) reaches the program, and the point at which
    a fault plan can deliver one"""

    def __init__(self, sh, real, path):
        self.__dict__.update(_sh=sh, _real=real, _path=path, _buf=[])

    def write(self, data):
        self._buf.append(data)
        return len(data)

    def writelines(self, lines):
        for x in lines:
            self.write(x)

    def _commit(self):
        if not self._buf:
            return
        buf, self._buf[:] = list(self._buf), []
        real = self._real

        def do(*_a, **_k):
            for x in buf:
                real.write(x)
            real.flush()
        sh = self._sh
        if sh.inside:
            return do()
        sh.inside = True
        try:
            return sh._event('fwrite', do, 'M', 'p', (self._path,), {},
                             [self._path])
        finally:
            sh.inside = False

    def flush(self):
        self._commit()

    def close(self):
        try:
            self._commit()
        finally:
            self._real.close()

    def __enter__(self):
        return self

    def __exit__(self, *exc):
        self.close()
        return False

    def __getattr__(self, name):
        return getattr(self._real, name)

    def __iter__(self):
        return iter(self._real)


def install(root, mounts, uid, plan, logfd):
    """Install the shim in this process.  Irreversible (meant for a child)."""
    global _shim
    sh = Shim(root, mounts, uid, plan, logfd)
    _shim = sh
    _O['write'] = os.write
    _O['read'] = os.read
    _O['readlink'] = os.readlink
    _O['listdir'] = os.listdir
    _O['ismount'] = posixpath.ismount
    for name, (cls, kind) in OS_FUNCS.items():
        orig = getattr(os, name, None)
        if orig is None:
            continue
        _O[name] = orig
        w = _mk_os_wrapper(sh, name, orig, cls, kind)
        setattr(os, name, w)
        for setname in ('supports_follow_symlinks', 'supports_dir_fd',
                        'supports_fd', 'supports_effective_ids',
                        'supports_bytes_environ'):
            s = getattr(os, setname, None)
            if isinstance(s, set) and orig in s:
                s.add(w)
    # builtins.open / io.open
    borig = builtins.open
    _O['bopen'] = borig

    def bopen(file, mode='r', *a, **kw):
        if sh.inside:
            return borig(file, mode, *a, **kw)
        m = mode if isinstance(mode, str) else 'r'
        cls = 'M' if any(c in m for c in 'wax+') else 'R'
        if isinstance(file, int):
            # os.fdopen / open(fd): writes through the file object happen in
            # C, out of reach of the os.write wrapper - hand out a proxy whose
            # flush/close is a traced (and faultable) operation
            ent = sh.fds.get(file)
            f = borig(file, mode, *a, **kw)
            if cls == 'M' and ent and ent[1] and sh._under(ent[0], sh.root):
                return _WProxy(sh, f, ent[0])
            return f
        sh.inside = True
        try:
            p = sh._abs(file)
            if not p or not sh._under(p, sh.root):
                if cls == 'R' or not p:
                    return borig(file, mode, *a, **kw)
            if cls == 'R' and not sh.trace_reads:
                return borig(file, mode, *a, **kw)
            f = sh._event('bopen', borig, cls, 'bopen',
                          (file, mode) + a, kw, [p])
        finally:
            sh.inside = False
        if cls == 'M' and not any(c in m for c in 'r+'):
            return _WProxy(sh, f, p)
        return f
    bopen.__wrapped__ = borig
    builtins.open = bopen
    io.open = bopen

    if not plan.get('real_mounts'):
        posixpath.ismount = sh.ismount
        if plan.get('vdev'):
            _O['fstat'] = os.fstat
            os.fstat = sh.fstat
    if uid is not None:
        os.getuid = lambda: uid
        euid = plan.get('euid')
        os.geteuid = (lambda: uid) if euid is None else (lambda: euid)
    # psutil: the virtual table is the list of (physical) partitions
    if not plan.get('keep_psutil'):
        try:
            import psutil
            from collections import namedtuple
            Part = namedtuple('sdiskpart',
                              ['device', 'mountpoint', 'fstype', 'opts'])
            # the mount table as psutil shows it: disk_partitions() lists
            # physical devices only, disk_partitions(all=True) everything
            # (network / fuse / pseudo file systems included)
            fst = plan.get('fstypes') or {}
            order = plan.get('partition_order') or sorted(sh.mounts)
            table = [Part('/dev/vf%d' % i, m, fst.get(m, 'ext4'), 'rw')
                     for i, m in enumerate(order)]
            pseudo = [Part('proc', posixpath.join(root, 'proc-like'), 'proc', 'rw'),
                      Part('sysfs', posixpath.join(root, 'sys-like'), 'sysfs', 'rw')]
            physical = ('ext2', 'ext3', 'ext4', 'xfs', 'vfat', 'ntfs', 'exfat',
                        'f2fs', 'reiserfs', 'jfs', 'zfs', 'iso9660', 'hfsplus')

            def disk_partitions(all=False):
                if all:
                    return list(table) + pseudo
                return [p_ for p_ in table if p_.fstype in physical]
            psutil.disk_partitions = disk_partitions
        except ImportError:
            pass
    if plan.get('short_io'):
        # sendfile(2) / copy_file_range(2) may transfer less than asked for
        # (they do for counts above 2 GiB): the count returned is what counts
        _n = int(plan['short_io'])
        for _nm in ('sendfile', 'copy_file_range'):
            _prev = getattr(os, _nm, None)
            if _prev is None:
                continue

            def _short(a0, a1, a2, a3=None, *rest, __prev=_prev, __nm=_nm, **kw):
                if __nm == 'sendfile':
                    # sendfile(out_fd, in_fd, offset, count)
                    return __prev(a0, a1, a2, min(int(a3), _n), *rest, **kw)
                # copy_file_range(src, dst, count, ...)
                return __prev(a0, a1, min(int(a2), _n),
                              *(() if a3 is None else (a3,)), *rest, **kw)
            setattr(os, _nm, _short)
    if plan.get('ro_volumes'):
        # volumes mounted read-only as statvfs() reports it (ST_RDONLY); the
        # unchanged commands never ask
        _ro = set(plan['ro_volumes'])
        _sv = os.statvfs

        def statvfs(path):
            r = _sv(path)
            try:
                p_ = posixpath.realpath(os.fsdecode(os.fspath(path))) \
                    if not isinstance(path, int) else None
                if p_ and sh.volume_of(p_) in _ro:
                    c_, (t_, d_) = r.__reduce__()
                    t_ = list(t_)
                    t_[8] |= os.ST_RDONLY
                    r = c_(tuple(t_), dict(d_))
            except Exception:
                pass
            return r
        os.statvfs = statvfs
    if plan.get('passwd'):
        # the account database as --all-users sees it: [name, uid, home]
        import pwd as _pwd
        ents = [_pwd.struct_passwd((n, 'x', u, u, '', h, '/bin/sh'))
                for n, u, h in plan['passwd']]
        _pwd.getpwall = lambda: list(ents)
    if plan.get('put_clock'):
        import datetime as _dt
        import trashcli.put.clock as _clk
        fixed = _dt.datetime.strptime(plan['put_clock'], '%Y-%m-%dT%H:%M:%S')

        _tick = [0, int(plan.get('put_clock_tick') or 0)]

        class _FakeDatetimeClass(object):
            @staticmethod
            def now():
                # (put_clock_tick: every reading is that many seconds later
                # than the one before - a move that takes its time)
                t_ = fixed + _dt.timedelta(seconds=_tick[0])
                _tick[0] += _tick[1]
                return t_

        class _FakeDatetimeModule(object):
            datetime = _FakeDatetimeClass
        _clk.datetime = _FakeDatetimeModule
    if plan.get('random_seed') is not None:
        import random
        random.seed(plan['random_seed'])
        # tempfile draws names from its own urandom-seeded generator: make
        # them a function of the seed too, so that crash/fault enumeration
        # re-runs see the same paths
        import tempfile

        class _Names(object):
            chars = 'abcdefghijklmnopqrstuvwxyz0123456789_'

            def __init__(self, seed):
                self.r = random.Random(seed)

            def __iter__(self):
                return self

            def __next__(self):
                return ''.join(self.r.choice(self.chars) for _ in range(8))
            next = __next__
        tempfile._name_sequence = _Names(plan['random_seed'])
        # ... and the pid, which code likes to put into scratch names
        os.getpid = lambda: 4242
    if plan.get('audit', True):
        sys.addaudithook(sh.audit_hook)
    if plan.get('drop_caps'):
        drop_caps()
    return sh


def drop_caps():
    """make the kernel enforce file permissions on this (root) process like
    on an ordinary owner: drop CAP_CHOWN, CAP_DAC_OVERRIDE,
    CAP_DAC_READ_SEARCH, CAP_FOWNER, CAP_FSETID from the effective, permitted
    and inheritable sets.  Mode bits of the sandbox (owned by root) then bite:
    a 0555 directory cannot be written, a 0000 file cannot be read."""
    import ctypes
    libc = ctypes.CDLL(None, use_errno=True)

    class Hdr(ctypes.Structure):
        _fields_ = [('version', ctypes.c_uint32), ('pid', ctypes.c_int)]

    class Data(ctypes.Structure):
        _fields_ = [('effective', ctypes.c_uint32),
                    ('permitted', ctypes.c_uint32),
                    ('inheritable', ctypes.c_uint32)]
    hdr = Hdr(0x20080522, 0)
    data = (Data * 2)()
    if libc.capget(ctypes.byref(hdr), data) != 0:
        raise OSError(ctypes.get_errno(), 'capget')
    for c in (0, 1, 2, 3, 4):
        i, b = divmod(c, 32)
        data[i].effective &= ~(1 << b)
        data[i].permitted &= ~(1 << b)
        data[i].inheritable &= ~(1 << b)
    if libc.capset(ctypes.byref(hdr), data) != 0:
        raise OSError(ctypes.get_errno(), 'capset')


def finish():
    if _shim is not None:
        _shim.finish()
