"""Controlled scheduler for concurrent trash-put processes (C04).

Each actor is a forked runner whose shim parks before every VISIBLE operation
(mutating call, or stat/lstat, with a path under the shared prefix): it sends
"<op> <relpaths>\\n" on its socket and waits for one byte.  The scheduler
waits until every live actor is parked or finished, then grants exactly one.
Private operations run freely (they commute with everything another actor
does).  A schedule is the list of granted actors; it replays
deterministically.
"""
import os
import select
import socket
import time

from . import run


class Actor(object):
    def __init__(self, idx, pid, st, sock):
        self.idx = idx
        self.pid = pid
        self.st = st
        self.sock = sock
        self.buf = b''
        self.parked = None      # (op, paths) when parked
        self.done = False
        self.result = None


def _read_request(actor, timeout=20.0):
    """block until the actor parks (returns the request) or exits (None)"""
    deadline = time.monotonic() + timeout
    while b'\n' not in actor.buf:
        tmo = deadline - time.monotonic()
        if tmo <= 0:
            raise TimeoutError('actor %d neither parked nor finished' % actor.idx)
        r, _, _ = select.select([actor.sock], [], [], tmo)
        if not r:
            continue
        try:
            d = actor.sock.recv(4096)
        except ConnectionResetError:
            d = b''
        if not d:
            actor.done = True
            actor.parked = None
            return None
        actor.buf += d
    line, actor.buf = actor.buf.split(b'\n', 1)
    actor.parked = line.decode('ascii', 'replace')
    return actor.parked


def run_schedule(w, actors_spec, prefix, choose, plan=None, max_steps=5000):
    """actors_spec: list of dict(args=[...], cwd=abs, stdin=b'').
    choose(step, enabled(list of idx), last, requests(dict idx->req)) -> idx.
    returns (results, trace) ; trace = [(idx, request)]"""
    actors = []
    for i, sp in enumerate(actors_spec):
        ps, cs = socket.socketpair()
        p = dict(plan or {})
        p.update(sp.get('plan') or {})
        p['sched'] = {'prefix': prefix}
        pid, st = run.run_cmd(w, sp.get('cmd', 'put'), sp['args'],
                              stdin=sp.get('stdin', b''),
                              cwd=sp.get('cwd'), plan=p, sched_sock=cs,
                              env=sp.get('env'))
        cs.close()
        actors.append(Actor(i, pid, st, ps))
    trace = []
    err = None
    try:
        for a in actors:
            _read_request(a)
        last = None
        step = 0
        while True:
            enabled = [a.idx for a in actors if not a.done and a.parked is not None]
            if not enabled:
                break
            if step >= max_steps:
                err = 'step limit'
                break
            reqs = dict((a.idx, a.parked) for a in actors if a.idx in enabled)
            c = choose(step, enabled, last, reqs)
            a = actors[c]
            trace.append((c, a.parked))
            a.parked = None
            a.sock.send(b'g')
            _read_request(a)
            last = c
            step += 1
    except TimeoutError as e:
        err = str(e)
    finally:
        for a in actors:
            try:
                a.sock.close()       # a parked actor reads EOF and _exit(97)s
            except OSError:
                pass
        for a in actors:
            a.result = run.finish_cmd(a.pid, a.st)
    return [a.result for a in actors], trace, err


# ------------------------------------------------------------- enumeration
class Explorer(object):
    """depth-first enumeration of all schedules with at most `bound`
    preemptions (a preemption = switching away from an actor that is still
    enabled).  Re-executes from a fresh world for every schedule."""

    def __init__(self, bound):
        self.bound = bound
        self.prefix = []          # forced choices for the next run
        self.record = []          # [(enabled, chosen, last)] of the last run
        self.finished = False
        self.count = 0

    def choose(self, step, enabled, last, reqs):
        if step < len(self.prefix):
            c = self.prefix[step]
            if c not in enabled:       # non-determinism: fall back
                c = enabled[0]
        else:
            c = last if last in enabled else enabled[0]
        self.record.append((list(enabled), c, last))
        return c

    def _preemptions(self, upto, alt=None):
        n = 0
        for i, (en, c, last) in enumerate(self.record[:upto]):
            if last is not None and last in en and c != last:
                n += 1
        return n

    def next(self):
        """prepare the next schedule; False when the space is exhausted"""
        self.count += 1
        rec = self.record
        i = len(rec) - 1
        while i >= 0:
            en, c, last = rec[i]
            # alternatives not yet tried at this step: those after c in `en`
            # order (default choice first: last-if-enabled, else en[0])
            order = ([last] if last in en else []) + [x for x in en if x != last]
            pos = order.index(c)
            base = self._preemptions(i)
            for alt in order[pos + 1:]:
                pre = base + (1 if (last is not None and last in en and alt != last) else 0)
                if pre <= self.bound:
                    self.prefix = [r[1] for r in rec[:i]] + [alt]
                    self.record = []
                    return True
            i -= 1
        self.finished = True
        return False

    def start_run(self):
        self.record = []


class RandomPolicy(object):
    def __init__(self, rng, switch_p=0.5):
        self.rng = rng
        self.switch_p = switch_p

    def choose(self, step, enabled, last, reqs):
        if last in enabled and self.rng.random() > self.switch_p:
            return last
        return self.rng.choice(enabled)


class PCTPolicy(object):
    """priority-based: random priorities, d random priority-change points"""

    def __init__(self, rng, nactors, depth=2, est_len=40):
        self.rng = rng
        self.prio = list(range(nactors))
        rng.shuffle(self.prio)
        self.changes = set(rng.randrange(est_len) for _ in range(depth))
        self.low = -1

    def choose(self, step, enabled, last, reqs):
        if step in self.changes:
            top = max(enabled, key=lambda i: self.prio[i])
            self.prio[top] = self.low
            self.low -= 1
        return max(enabled, key=lambda i: self.prio[i])
