"""E5 - reference semantics, written from the FreeDesktop.org Trash spec and
the property statements.  Shares no code with /repo and never imports it.
Inspects the sandbox with plain os calls (the checks call it in the parent
process, where no shim is installed)."""
import datetime
import os
import re
import stat as _stat

UNRESERVED = set(b'abcdefghijklmnopqrstuvwxyzABCDEFGHIJKLMNOPQRSTUVWXYZ'
                 b'0123456789-_.~')
_HEX = '0123456789abcdefABCDEF'


# ------------------------------------------------------------ percent coding
def pct_decode(s):
    """str (the raw text after 'Path=') -> bytes; a '%' not followed by two
    hex digits is kept literally (RFC 3986 section 2.1 leniency)."""
    raw = s.encode('utf-8', 'surrogateescape')
    out = bytearray()
    i = 0
    n = len(raw)
    while i < n:
        c = raw[i]
        if c == 0x25 and i + 3 <= n and \
                chr(raw[i + 1]) in _HEX and chr(raw[i + 2]) in _HEX:
            out.append(int(raw[i + 1:i + 3].decode('ascii'), 16))
            i += 3
        else:
            out.append(c)
            i += 1
    return bytes(out)


def pct_encode(b, safe=b'/'):
    out = []
    for c in b:
        if c in UNRESERVED or c in safe:
            out.append(chr(c))
        else:
            out.append('%%%02X' % c)
    return ''.join(out)


def escaped_ok(value):
    """the escaped Path value may contain only unreserved chars, '/', %XX"""
    return re.match(r'^(?:[A-Za-z0-9\-_.~/]|%[0-9A-Fa-f]{2})*$', value) \
        is not None


# ------------------------------------------------------------- .trashinfo
DATE_RE = re.compile(r'^(\d{4})-(\d{2})-(\d{2})T(\d{2}):(\d{2}):(\d{2})$')


def parse_date(text):
    m = DATE_RE.match(text)
    if not m:
        return None
    try:
        return datetime.datetime(*[int(g) for g in m.groups()])
    except ValueError:
        return None


def parse_info(data):
    """bytes of a .trashinfo -> dict(path_raw, path (bytes) , date_raw, date)
    first 'Path=' line and first 'DeletionDate=' line win; unknown lines are
    ignored.  path is None when there is no Path line."""
    text = data.decode('utf-8', 'surrogateescape')
    path_raw = None
    date_raw = None
    for line in text.split('\n'):
        if path_raw is None and line.startswith('Path='):
            path_raw = line[len('Path='):]
        elif date_raw is None and line.startswith('DeletionDate='):
            date_raw = line[len('DeletionDate='):]
    return {
        'path_raw': path_raw,
        'path': pct_decode(path_raw) if path_raw is not None else None,
        'date_raw': date_raw,
        'date': parse_date(date_raw) if date_raw is not None else None,
    }


INFO_GRAMMAR = re.compile(
    rb'\A\[Trash Info\]\nPath=([^\n]*)\n'
    rb'DeletionDate=(\d{4}-\d{2}-\d{2}T\d{2}:\d{2}:\d{2})\n\Z')


# ------------------------------------------------------------------ volumes
def volume_of(real_path, mounts):
    p = real_path
    while True:
        if p in mounts:
            return p
        q = os.path.dirname(p)
        if q == p:
            return p
        p = q


def real_entry(path):
    """the directory entry a path names: realpath(parent)/basename, trailing
    slashes ignored"""
    p = path.rstrip('/') or '/'
    head, tail = os.path.split(p)
    rp = os.path.realpath(head or '.')
    if tail in ('', '.'):
        return rp
    if tail == '..':
        return os.path.dirname(rp)
    return os.path.join(rp, tail)


def top_trash_ok(top):
    """$topdir/.Trash passes the checks: exists, real dir, not a symlink,
    sticky"""
    try:
        st = os.lstat(top)
    except OSError:
        return False
    if _stat.S_ISLNK(st.st_mode) or not _stat.S_ISDIR(st.st_mode):
        return False
    return bool(st.st_mode & _stat.S_ISVTX)


def home_trash(env):
    x = env.get('XDG_DATA_HOME')
    if x:
        return x + '/Trash'
    h = env.get('HOME')
    if h:
        return h + '/.local/share/Trash'
    return None


def creatable_dir(path):
    """can path be made a directory with mkdir -p (as root, no faults)?"""
    p = path
    while True:
        try:
            st = os.stat(p)
            return _stat.S_ISDIR(st.st_mode)
        except FileNotFoundError:
            if os.path.islink(p):
                return False          # dangling link in the way
            q = os.path.dirname(p)
            if q == p:
                return False
            p = q
        except NotADirectoryError:
            return False
        except OSError:
            return False


def candidate_usable(tdir, file_volume, mounts):
    """same volume after resolving symlinks, and trash dir + files + info can
    exist as directories"""
    rp = os.path.realpath(tdir)
    if volume_of(rp, mounts) != file_volume:
        return False
    for sub in ('', '/files', '/info'):
        if not creatable_dir(tdir + sub):
            return False
    return True


def expected_trash_dirs(entry_path, env, uid, mounts, trash_dir_opt=None,
                        fallback=False):
    """ordered list of the trash directories the spec allows for this entry
    (first usable one must be used); [] = cannot be trashed.
    entry_path: absolute path of the argument as the user wrote it."""
    ent = real_entry(entry_path)
    vol = volume_of(os.path.dirname(ent), mounts)
    out = []
    if trash_dir_opt:
        if candidate_usable(trash_dir_opt, vol, mounts):
            out.append(os.path.normpath(trash_dir_opt))
        return out, vol
    h = home_trash(env)
    if h and candidate_usable(h, vol, mounts):
        out.append(os.path.normpath(h))
    top = os.path.join(vol, '.Trash')
    if top_trash_ok(top):
        t1 = os.path.join(top, str(uid))
        if candidate_usable(t1, vol, mounts):
            out.append(t1)
    t2 = os.path.join(vol, '.Trash-%d' % uid)
    if candidate_usable(t2, vol, mounts):
        out.append(t2)
    if fallback and h and env.get('TRASH_ENABLE_HOME_FALLBACK') == '1':
        hh = os.path.normpath(h)
        ok = all(creatable_dir(h + s) for s in ('', '/files', '/info'))
        if ok and hh not in out:
            out.append(hh)
    return out, vol


# ---------------------------------------------------------------- age rule
def older_than(days, now, deletion_date):
    return deletion_date < now - datetime.timedelta(days=days)


# --------------------------------------------------------------------- glob
def glob_match(name, pat):
    """case-sensitive shell-style match of the whole name: literals, '*',
    '?', '[...]', '[!...]'.  Backtracking, no regex, no fnmatch."""
    return _gm(name, 0, pat, 0)


def _parse_class(pat, j):
    """pat[j] == '['.  returns (negate, items, next_index) or None if the
    bracket is unclosed (then '[' is a literal)."""
    k = j + 1
    neg = False
    if k < len(pat) and pat[k] == '!':
        neg = True
        k += 1
    start = k
    if k < len(pat) and pat[k] == ']':
        k += 1
    while k < len(pat) and pat[k] != ']':
        k += 1
    if k >= len(pat):
        return None
    body = pat[start:k]
    items = []
    i = 0
    while i < len(body):
        if i + 2 < len(body) and body[i + 1] == '-':
            items.append((body[i], body[i + 2]))
            i += 3
        else:
            items.append((body[i], body[i]))
            i += 1
    return neg, items, k + 1


def _gm(s, i, pat, j):
    while j < len(pat):
        c = pat[j]
        if c == '*':
            while j + 1 < len(pat) and pat[j + 1] == '*':
                j += 1
            if j + 1 == len(pat):
                return True
            for k in range(i, len(s) + 1):
                if _gm(s, k, pat, j + 1):
                    return True
            return False
        if i >= len(s):
            return False
        if c == '?':
            i += 1
            j += 1
            continue
        if c == '[':
            pc = _parse_class(pat, j)
            if pc is not None:
                neg, items, nj = pc
                hit = any(lo <= s[i] <= hi for lo, hi in items)
                if hit == neg:
                    return False
                i += 1
                j = nj
                continue
        if s[i] != c:
            return False
        i += 1
        j += 1
    return i == len(s)


def glob_is_portable(pat):
    """pattern uses only features on which shell-style matching and fnmatch
    agree: no backslash, no '[^', no unclosed '[', no odd ranges"""
    if '\\' in pat:
        return False
    j = 0
    while j < len(pat):
        if pat[j] == '[':
            pc = _parse_class(pat, j)
            if pc is None:
                return False
            neg, items, nj = pc
            body = pat[j + 1:nj - 1]
            if body.startswith('^') or body.startswith('!]') or \
                    body.startswith(']') or '[' in body or '--' in body \
                    or '&&' in body or '~~' in body or '||' in body:
                return False
            for lo, hi in items:
                if lo > hi:
                    return False
                if lo != hi and ('-' in (lo, hi)):
                    return False
            if body.startswith('-') or body.endswith('-') or body in ('!', ''):
                return False
            j = nj
        else:
            j += 1
    return True


def glob_escape(name):
    out = []
    for c in name:
        if c in '*?[':
            out.append('[' + c + ']')
        else:
            out.append(c)
    return ''.join(out)


# ------------------------------------------------------------ restore reply
STRICT_REPLY = re.compile(r'^[0-9]+(-[0-9]+)?(,[0-9]+(-[0-9]+)?)*$')


def parse_reply(reply, n):
    """strict grammar: index (',' index)*, index := n | a-b (inclusive).
    returns list of indices (in order, duplicates kept) or None if any index
    is out of 0..n-1.  Caller must check STRICT_REPLY first."""
    out = []
    for part in reply.split(','):
        if '-' in part:
            a, b = part.split('-')
            a, b = int(a), int(b)
            if b - a > 10 ** 6:
                # huge range: certainly out of range unless n is huge
                if a < 0 or b >= n:
                    return None
            out.extend(range(a, b + 1))
        else:
            out.append(int(part))
    for i in out:
        if i < 0 or i >= n:
            return None
    return out


def in_scope(location, directory):
    """location is directory or lies beneath it at a component boundary"""
    if directory == '/':
        return True
    return location == directory or location.startswith(directory + '/')
